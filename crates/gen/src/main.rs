//! verif_gen: seed + tier -> grammar corpus -> generated shard crates + runner crate.
//!
//!   verif_gen corpus --seed N --tier T --out DIR [--drop id,id] [--release-like]
//!   verif_gen specs  --file specs.json --out DIR        (explicit grammar list: replay, reduction)
//!   verif_gen stats  --seed N

mod emit;

use serde_json::{json, Value};
use std::collections::BTreeSet;
use std::path::Path;
use verif_core::common::{Args, Rng};
use verif_core::corpus::{self, Spec};
use verif_core::grammargen::*;

fn dropped(args: &Args) -> BTreeSet<String> {
    args.get("drop").map(|s| s.split(',').filter(|x| !x.is_empty()).map(String::from).collect()).unwrap_or_default()
}

fn write(out: &Path, specs: &[Spec], args: &Args, extra: Value) {
    let release_like = args.get("release-like").is_some();
    let (opt, dbg) = if release_like { (3, false) } else { (0, true) };
    let infos = emit::write_workspace(out, specs, &dropped(args), opt, dbg);
    let doc = json!({
        "specs": specs.iter().map(|s| s.to_json()).collect::<Vec<_>>(),
        "modules": infos.iter().map(|m| json!({"id": m.id, "rules": m.rules.iter().map(|(n, k)| json!([n, format!("{:?}", k)])).collect::<Vec<_>>()})).collect::<Vec<_>>(),
        "meta": extra,
    });
    std::fs::write(out.join("corpus.json"), serde_json::to_string_pretty(&doc).unwrap()).expect("write corpus.json");
    println!("verif_gen: {} grammars, {} rules -> {}", infos.len(), infos.iter().map(|m| m.rules.len()).sum::<usize>(), out.display());
}

fn main() {
    let args = Args::parse();
    match args.positional.first().map(|s| s.as_str()) {
        Some("corpus") => {
            let out = args.get("out").unwrap_or("/verif/work").to_string();
            let c = corpus::build(args.seed(), args.tier());
            let mut feats = std::collections::BTreeMap::new();
            for s in &c.specs {
                if let Ok(g) = verif_core::ir::Grammar::parse(&s.text) {
                    feature_counts(&g, &mut feats);
                }
            }
            write(Path::new(&out), &c.specs, &args, json!({"seed": args.seed() as i64, "tier": args.tier().name(), "candidates": c.stats.candidates, "rejected_by_pest": c.stats.rejected_by_pest, "features": feats, "rejected_samples": c.rejected}));
        }
        Some("specs") => {
            let out = args.get("out").expect("--out").to_string();
            let txt = std::fs::read_to_string(args.get("file").expect("--file")).expect("read specs");
            let v: Value = serde_json::from_str(&txt).expect("json");
            let specs: Vec<Spec> = v.as_array().expect("array of specs").iter().map(Spec::from_json).collect();
            write(Path::new(&out), &specs, &args, json!({}));
        }
        Some("stats") => {
            let mut rng = Rng::new(args.seed());
            let mut st = GenStats::default();
            let mut rej = vec![];
            let mut feats = std::collections::BTreeMap::new();
            for i in 0..200 {
                let p = if i % 4 == 3 { Profile::stack() } else { Profile::general() };
                let g = valid_grammar(&mut rng, &p, &mut st, &mut rej);
                feature_counts(&g, &mut feats);
            }
            println!("{:?}\n{:#?}", st, feats);
        }
        _ => {
            eprintln!("usage: verif_gen corpus|specs|stats ...");
            std::process::exit(2);
        }
    }
}
