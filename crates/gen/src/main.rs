fn main(){}
