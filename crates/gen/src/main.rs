//! verif_gen: seed + tier -> grammar corpus -> generated shard crates + runner crate.
//!
//!   verif_gen corpus --seed N --tier T --out DIR [--drop id,id] [--release-like]
//!   verif_gen specs  --file specs.json --out DIR        (explicit grammar list: replay, reduction)
//!   verif_gen stats  --seed N

mod emit;

use serde_json::{json, Value};
use std::collections::BTreeSet;
use std::path::Path;
use verif_core::common::{Args, Rng};
use verif_core::corpus::{self, Spec};
use verif_core::grammargen::*;

fn dropped(args: &Args) -> BTreeSet<String> {
    args.get("drop").map(|s| s.split(',').filter(|x| !x.is_empty()).map(String::from).collect()).unwrap_or_default()
}

fn write(out: &Path, specs: &[Spec], args: &Args, extra: Value) {
    let release_like = args.get("release-like").is_some();
    let (opt, dbg) = if release_like { (3, false) } else { (0, true) };
    let infos = emit::write_workspace(out, specs, &dropped(args), opt, dbg);
    let doc = json!({
        "specs": specs.iter().map(|s| s.to_json()).collect::<Vec<_>>(),
        "modules": infos.iter().map(|m| json!({"id": m.id, "rules": m.rules.iter().map(|(n, k)| json!([n, format!("{:?}", k)])).collect::<Vec<_>>()})).collect::<Vec<_>>(),
        "meta": extra,
    });
    std::fs::write(out.join("corpus.json"), serde_json::to_string_pretty(&doc).unwrap()).expect("write corpus.json");
    println!("verif_gen: {} grammars, {} rules -> {}", infos.len(), infos.iter().map(|m| m.rules.len()).sum::<usize>(), out.display());
}

/// Run the generator library in-process on one spec; digest of the emitted token stream.
pub fn derive_tokens(spec: &Spec) -> Result<String, String> {
    use std::str::FromStr;
    let mut src = String::new();
    if spec.family == "illformed_split" {
        // one grammar source per rule: the derive accepts several #[grammar_inline] attributes
        for line in spec.text.lines().filter(|l| !l.trim().is_empty()) {
            src.push_str(&format!("#[grammar_inline = {:?}]\n", format!("{}\n", line)));
        }
    } else {
        src.push_str(&format!("#[grammar_inline = {:?}]\n", spec.text));
    }
    for o in &spec.options {
        src.push_str(&format!("#[{}]\n", o));
    }
    src.push_str("struct Parser;");
    let ts = proc_macro2::TokenStream::from_str(&src).map_err(|e| format!("lex: {}", e))?;
    let r = std::panic::catch_unwind(|| pest_typed_generator::derive_typed_parser(ts, false, true).to_string());
    r.map_err(|e| {
        if let Some(s) = e.downcast_ref::<String>() {
            s.clone()
        } else if let Some(s) = e.downcast_ref::<&str>() {
            s.to_string()
        } else {
            "panic".into()
        }
    })
}

fn derive_digest(spec: &Spec) -> Value {
    match derive_tokens(spec) {
        Ok(t) => json!({"len": t.len(), "hash": format!("{:016x}", verif_core::common::fnv(t.as_bytes()))}),
        Err(e) => json!({"panic": e.chars().take(200).collect::<String>()}),
    }
}

fn main() {
    std::panic::set_hook(Box::new(|_| {}));
    let args = Args::parse();
    match args.positional.first().map(|s| s.as_str()) {
        Some("corpus") => {
            let out = args.get("out").map(String::from).unwrap_or_else(|| verif_core::common::work_dir().display().to_string());
            let mut c = corpus::build(args.seed(), args.tier());
            if args.get("only-forms").is_some() {
                // the subset compiled release-like for C09
                c.specs.retain(|s| s.forms && s.family != "options" && s.probes.is_empty());
                let cap = args.tier().pick(24, 64);
                c.specs.truncate(cap);
            }
            let mut feats = std::collections::BTreeMap::new();
            for s in &c.specs {
                if let Ok(g) = verif_core::ir::Grammar::parse(&s.text) {
                    feature_counts(&g, &mut feats);
                }
            }
            write(Path::new(&out), &c.specs, &args, json!({"seed": args.seed() as i64, "tier": args.tier().name(), "candidates": c.stats.candidates, "rejected_by_pest": c.stats.rejected_by_pest, "features": feats, "rejected_samples": c.rejected}));
        }
        Some("specs") => {
            let out = args.get("out").expect("--out").to_string();
            let txt = std::fs::read_to_string(args.get("file").expect("--file")).expect("read specs");
            let v: Value = serde_json::from_str(&txt).expect("json");
            let specs: Vec<Spec> = v.as_array().expect("array of specs").iter().map(Spec::from_json).collect();
            write(Path::new(&out), &specs, &args, json!({}));
        }
        Some("tokens") => {
            // token stream of the derive for every corpus grammar: one process = one sample of
            // whatever non-determinism (hash seeds, iteration order) generation may have
            let out = args.get("out").expect("--out").to_string();
            let c = corpus::build(args.seed(), args.tier());
            let mut m = serde_json::Map::new();
            for s in &c.specs {
                m.insert(s.id.clone(), derive_digest(s));
            }
            std::fs::write(&out, serde_json::to_string(&Value::Object(m)).unwrap()).expect("write tokens file");
            println!("verif_gen: token digests of {} grammars -> {}", c.specs.len(), out);
        }
        Some("illformed") => {
            // C11 (a): run the generator library on the ill-formed family in this process
            let out = args.get("out").expect("--out").to_string();
            let c = corpus::build(args.seed(), args.tier());
            let mut cases: Vec<(String, String)> = ill_formed_catalogue();
            for t in &c.rejected {
                cases.push(("rejected_candidate".into(), t.clone()));
            }
            let mut rng = Rng::new(verif_core::common::sub_seed(args.seed(), "illformed"));
            let n_mut = args.tier().pick(300, 3000);
            let valid: Vec<verif_core::ir::Grammar> = c.specs.iter().filter(|s| s.family == "general" || s.family == "stack").filter_map(|s| verif_core::ir::Grammar::parse(&s.text).ok()).collect();
            for _ in 0..n_mut {
                let g = &valid[rng.below(valid.len())];
                let (label, text) = mutate_grammar(&mut rng, g);
                cases.push((format!("mutation.{}", label), text));
            }
            let mut outv = vec![];
            // every multi-rule case a second time, split into one grammar source per rule
            let multi: Vec<(String, String)> = cases.iter().filter(|(_, t)| t.lines().filter(|l| !l.trim().is_empty()).count() >= 2 && t.lines().all(|l| l.trim().is_empty() || l.contains(" = "))).map(|(c, t)| (format!("split_sources.{}", c), t.clone())).collect();
            let n_single = cases.len();
            cases.extend(multi);
            for (k, (class, text)) in cases.into_iter().enumerate() {
                let spec = Spec::new("x", if k >= n_single { "illformed_split" } else { "illformed" }, &text);
                let (panicked, msg, rust_ok) = match derive_tokens(&spec) {
                    Ok(t) => (false, String::new(), syn::parse_file(&t).is_ok()),
                    Err(e) => (true, e.chars().take(300).collect(), false),
                };
                outv.push(json!({"class": class, "text": text, "generator_panicked": panicked, "message": msg, "tokens_parse_as_rust": rust_ok}));
            }
            std::fs::write(&out, serde_json::to_string(&json!({"cases": outv})).unwrap()).expect("write");
            println!("verif_gen: generator library run on {} ill-formed / mutated grammars -> {}", outv.len(), out);
        }
        Some("stats") => {
            let mut rng = Rng::new(args.seed());
            let mut st = GenStats::default();
            let mut rej = vec![];
            let mut feats = std::collections::BTreeMap::new();
            for i in 0..200 {
                let p = if i % 4 == 3 { Profile::stack() } else { Profile::general() };
                let g = valid_grammar(&mut rng, &p, &mut st, &mut rej);
                feature_counts(&g, &mut feats);
            }
            println!("{:?}\n{:#?}", st, feats);
        }
        _ => {
            eprintln!("usage: verif_gen corpus|specs|stats ...");
            std::process::exit(2);
        }
    }
}
