//! Generic helpers the generated grammar modules call: run one rule of a typed parser through
//! any entry point and input form and turn everything observable into plain data.

use pest_typed::iterators::{Pair, PairTree, Pairs, Token};
use pest_typed::tracker::Tracker;
use pest_typed::{AsInput, Input, ParsableTypedNode, Position, RuleType, Span, Stack, TypedParser};
use std::collections::hash_map::DefaultHasher;
use std::fmt::Debug;
use std::hash::{Hash, Hasher};
use std::panic::{catch_unwind, AssertUnwindSafe};
pub use verif_core::api::*;
pub use verif_core::interp::Tok;

pub fn panic_msg(e: Box<dyn std::any::Any + Send>) -> String {
    if let Some(s) = e.downcast_ref::<&str>() {
        s.to_string()
    } else if let Some(s) = e.downcast_ref::<String>() {
        s.clone()
    } else {
        "panic".to_string()
    }
}

pub fn tok_of<R: RuleType>(t: &Token<'_, R>) -> Tok {
    Tok { rule: format!("{:?}", t.rule), start: t.span.start(), end: t.span.end(), kids: t.children.iter().map(tok_of).collect() }
}

fn thin_of<R: RuleType>(t: &pest_typed::iterators::ThinToken<R>) -> Tok {
    Tok { rule: format!("{:?}", t.rule), start: t.start, end: t.end, kids: t.children.iter().map(thin_of).collect() }
}

fn spans_valid<R: RuleType>(ts: &[Token<'_, R>], host: &str, lo: usize, hi: usize) -> bool {
    ts.iter().all(|t| {
        let (a, b) = (t.span.start(), t.span.end());
        let in_range = lo <= a && a <= b && b <= hi && host.is_char_boundary(a) && host.is_char_boundary(b);
        // as_str() must be takable and be the slice of the host
        let text_ok = in_range && t.span.as_str().len() == b - a && std::ptr::eq(t.span.get_input(), host);
        text_ok && spans_valid(&t.children, host, a, b)
    })
}

fn hash_of<T: Hash>(t: &T) -> u64 {
    let mut h = DefaultHasher::new();
    t.hash(&mut h);
    h.finish()
}

fn err_obs<R: RuleType>(e: &pest_typed::error::Error<R>) -> ErrObs {
    use pest_typed::error::{InputLocation, LineColLocation};
    let pos = match e.location {
        InputLocation::Pos(p) => p,
        InputLocation::Span((a, _)) => a,
    };
    let line_col = match e.line_col {
        LineColLocation::Pos(lc) => lc,
        LineColLocation::Span(lc, _) => lc,
    };
    let (display, display_panicked) = match catch_unwind(AssertUnwindSafe(|| format!("{}", e))) {
        Ok(s) => (s, false),
        Err(p) => (panic_msg(p), true),
    };
    ErrObs { display, pos, line_col, debug: format!("{:?}", e), display_panicked }
}

fn track_obs<R: RuleType>(t: Tracker<'_, R>) -> TrackObs {
    let (pos, attempts) = t.finish();
    TrackObs {
        pos: pos.pos(),
        attempts: attempts
            .into_iter()
            .map(|(upper, (pos_rules, neg_rules, special))| {
                (
                    upper.map(|r| format!("{:?}", r)),
                    pos_rules.iter().map(|r| format!("{:?}", r)).collect(),
                    neg_rules.iter().map(|r| format!("{:?}", r)).collect(),
                    special.iter().map(|s| s.to_string()).collect(),
                )
            })
            .collect(),
    }
}

fn stack_obs(s: &Stack<Span<'_>>) -> Vec<(usize, usize)> {
    s[0..s.len()].iter().map(|sp| (sp.start(), sp.end())).collect()
}

pub trait Node<'i, R: RuleType>: ParsableTypedNode<'i, R> + Pairs<'i, R> + Debug + Hash + Clone + PartialEq {}
impl<'i, R: RuleType, T: ParsableTypedNode<'i, R> + Pairs<'i, R> + Debug + Hash + Clone + PartialEq> Node<'i, R> for T {}

fn fill_tree<'i, R: RuleType, T: Node<'i, R>>(o: &mut Obs, t: &T, deep: bool, host: &'i str, lo: usize, hi: usize) {
    let toks = t.self_or_children();
    o.spans_ok = Some(spans_valid(&toks, host, lo, hi));
    o.tokens = Some(toks.iter().map(tok_of).collect());
    if deep {
        let d = format!("{:?}", t);
        let h = hash_of(t);
        let c = t.clone();
        o.clone_ok = Some(c == *t && !(c != *t) && hash_of(&c) == h && format!("{:?}", c) == d);
        o.debug = Some(d);
        o.hash = Some(h);
    }
}

/// All entry points for one input form.
fn run_entry<'i, R: RuleType, T: Node<'i, R>, A: AsInput<'i> + Copy>(entry: Entry, deep: bool, input: A, host: &'i str, lo: usize, hi: usize) -> Obs {
    let mut o = Obs::default();
    match entry {
        Entry::ParsePartial => match T::try_parse_partial(input) {
            Ok((rest, t)) => {
                o.ok = true;
                o.end = Some(rest.byte_offset());
                fill_tree(&mut o, &t, deep, host, lo, hi);
            }
            Err(e) => o.err = Some(err_obs(&e)),
        },
        Entry::CheckPartial => match T::try_check_partial(input) {
            Ok(rest) => {
                o.ok = true;
                o.end = Some(rest.byte_offset());
            }
            Err(e) => o.err = Some(err_obs(&e)),
        },
        Entry::ParseFull => match T::try_parse(input) {
            Ok(t) => {
                o.ok = true;
                fill_tree(&mut o, &t, deep, host, lo, hi);
            }
            Err(e) => o.err = Some(err_obs(&e)),
        },
        Entry::CheckFull => match T::try_check(input) {
            Ok(()) => o.ok = true,
            Err(e) => o.err = Some(err_obs(&e)),
        },
        Entry::ParsePartialWith => {
            let mut stack = Stack::new();
            let inp = input.as_input();
            let mut tracker = Tracker::new(inp);
            match T::try_parse_partial_with(inp, &mut stack, &mut tracker) {
                Some((rest, t)) => {
                    o.ok = true;
                    o.end = Some(rest.byte_offset());
                    fill_tree(&mut o, &t, deep, host, lo, hi);
                }
                None => {}
            }
            o.stack = Some(stack_obs(&stack));
            o.tracker = Some(track_obs(tracker));
        }
        Entry::CheckPartialWith => {
            let mut stack = Stack::new();
            let inp = input.as_input();
            let mut tracker = Tracker::new(inp);
            if let Some(rest) = T::try_check_partial_with(inp, &mut stack, &mut tracker) {
                o.ok = true;
                o.end = Some(rest.byte_offset());
            }
            o.stack = Some(stack_obs(&stack));
            o.tracker = Some(track_obs(tracker));
        }
        Entry::ParseFullWith => {
            let mut stack = Stack::new();
            let inp = input.as_input();
            let mut tracker = Tracker::new(inp);
            if let Some(t) = T::try_parse_with(inp, &mut stack, &mut tracker) {
                o.ok = true;
                fill_tree(&mut o, &t, deep, host, lo, hi);
            }
            o.stack = Some(stack_obs(&stack));
            o.tracker = Some(track_obs(tracker));
        }
        Entry::CheckFullWith => {
            let mut stack = Stack::new();
            let inp = input.as_input();
            let mut tracker = Tracker::new(inp);
            o.ok = T::try_check_with(inp, &mut stack, &mut tracker);
            o.stack = Some(stack_obs(&stack));
            o.tracker = Some(track_obs(tracker));
        }
        Entry::ParserParse | Entry::ParserCheck => unreachable!(),
    }
    o
}

fn guarded(f: impl FnOnce() -> Obs) -> Obs {
    match catch_unwind(AssertUnwindSafe(f)) {
        Ok(o) => o,
        Err(e) => Obs { panicked: Some(panic_msg(e)), ..Obs::default() },
    }
}

fn run_parser_trait<'i, R: RuleType, P: TypedParser<R>, T: Node<'i, R>>(req: Req, host: &'i str) -> Obs {
    let mut o = Obs::default();
    match req.entry {
        Entry::ParserParse => match P::try_parse::<T>(host) {
            Ok(t) => {
                o.ok = true;
                fill_tree(&mut o, &t, req.deep, host, 0, host.len());
            }
            Err(e) => o.err = Some(err_obs(&e)),
        },
        _ => match P::try_check::<T>(host) {
            Ok(()) => o.ok = true,
            Err(e) => o.err = Some(err_obs(&e)),
        },
    }
    o
}

/// Typed side, `&str` form only (keeps monomorphisation small for most of the corpus).
pub fn run_typed_str<'i, R: RuleType, P: TypedParser<R>, T: Node<'i, R>>(req: Req, host: &'i str) -> Obs {
    guarded(|| match (req.entry, req.form) {
        (Entry::ParserParse | Entry::ParserCheck, Form::Str) => run_parser_trait::<R, P, T>(req, host),
        (_, Form::Str) => run_entry::<R, T, &'i str>(req.entry, req.deep, host, host, 0, host.len()),
        _ => Obs { panicked: Some("harness: input form not compiled for this grammar".into()), ..Obs::default() },
    })
}

/// Typed side with all three input forms.
pub fn run_typed_forms<'i, R: RuleType, P: TypedParser<R>, T: Node<'i, R>>(req: Req, host: &'i str) -> Obs {
    guarded(|| match (req.entry, req.form) {
        (Entry::ParserParse | Entry::ParserCheck, _) => run_parser_trait::<R, P, T>(req, host),
        (_, Form::Str) => run_entry::<R, T, &'i str>(req.entry, req.deep, host, host, 0, host.len()),
        (_, Form::Pos(a)) => match Position::new(host, a) {
            Some(p) => run_entry::<R, T, Position<'i>>(req.entry, req.deep, p, host, a, host.len()),
            None => Obs { panicked: Some("harness: invalid Position".into()), ..Obs::default() },
        },
        (_, Form::Span(a, b)) => match Span::new(host, a, b) {
            Some(s) => run_entry::<R, T, Span<'i>>(req.entry, req.deep, s, host, a, b),
            None => Obs { panicked: Some("harness: invalid Span".into()), ..Obs::default() },
        },
    })
}

fn parse_form<'i, R: RuleType, T: Node<'i, R>>(host: &'i str, f: Form, forms: bool) -> Option<Option<T>> {
    Some(match f {
        Form::Str => T::try_parse_partial(host).ok().map(|(_, t)| t),
        Form::Pos(a) if forms => T::try_parse_partial(Position::new(host, a)?).ok().map(|(_, t)| t),
        Form::Span(a, b) if forms => T::try_parse_partial(Span::new(host, a, b)?).ok().map(|(_, t)| t),
        _ => return None,
    })
}

fn pair_obs<'i, R: RuleType, T: Node<'i, R>>(host: &'i str, a: Form, b: Form, forms: bool) -> PairObs {
    match catch_unwind(AssertUnwindSafe(|| {
        let mut o = PairObs::default();
        let (x, y) = match (parse_form::<R, T>(host, a, forms), parse_form::<R, T>(host, b, forms)) {
            (Some(x), Some(y)) => (x, y),
            _ => {
                o.panicked = Some("harness: input form not available".into());
                return o;
            }
        };
        if let (Some(x), Some(y)) = (x, y) {
            o.both_ok = true;
            o.eq = x == y;
            o.ne = x != y;
            o.debug_a = format!("{:?}", x);
            o.debug_b = format!("{:?}", y);
            o.debug_equal = o.debug_a == o.debug_b;
            o.hash_equal = hash_of(&x) == hash_of(&y);
        }
        o
    })) {
        Ok(o) => o,
        Err(e) => PairObs { panicked: Some(panic_msg(e)), ..PairObs::default() },
    }
}

pub fn run_pair_str<'i, R: RuleType, T: Node<'i, R>>(host: &'i str, a: Form, b: Form) -> PairObs {
    pair_obs::<R, T>(host, a, b, false)
}
pub fn run_pair_forms<'i, R: RuleType, T: Node<'i, R>>(host: &'i str, a: Form, b: Form) -> PairObs {
    pair_obs::<R, T>(host, a, b, true)
}

/// Traversal helpers of a non-silent rule.
pub fn run_tree<'i, R: RuleType, T: Node<'i, R> + PairTree<'i, R>>(host: &'i str) -> TreeObs {
    match catch_unwind(AssertUnwindSafe(|| {
        let mut o = TreeObs::default();
        if let Ok((_, t)) = T::try_parse_partial(host) {
            o.ok = true;
            o.token = Some(tok_of(&t.as_token()));
            o.thin = Some(thin_of(&t.as_thin_token()));
            o.children = Pair::children(&t).iter().map(tok_of).collect();
            let _ = t.iterate_pre_order(|tok, depth| -> Result<(), ()> {
                o.pre_order.push((format!("{:?}", tok.rule), tok.span.start(), tok.span.end(), depth));
                o.texts.push(tok.span.as_str().to_string());
                Ok(())
            });
            let _ = t.iterate_level_order(|tok, k| -> Result<(), ()> {
                o.level_order.push((format!("{:?}", tok.rule), tok.span.start(), tok.span.end(), k));
                Ok(())
            });
            o.tree_text = t.format_as_tree().ok();
            let mut buf = String::new();
            if t.write_tree_to(&mut buf).is_ok() {
                o.tree_text2 = Some(buf);
            }
        }
        o
    })) {
        Ok(o) => o,
        Err(e) => TreeObs { panicked: Some(panic_msg(e)), ..TreeObs::default() },
    }
}

// ---------------------------------------------------------------------------------------
// pest side

fn pest_tok<R: pest::RuleType>(p: pest::iterators::Pair<'_, R>) -> Tok {
    let sp = p.as_span();
    Tok { rule: format!("{:?}", p.as_rule()), start: sp.start(), end: sp.end(), kids: p.into_inner().map(pest_tok).collect() }
}

/// Run the pest_derive parser.  `wrapped`: the rule given is the harness' wrapper
/// `__w_x = { x }` around a silent rule x; its children are reported, its end is the offset.
pub fn run_pest<R: pest::RuleType, P: pest::Parser<R>>(rule: R, input: &str, wrapped: bool) -> PestObs {
    match catch_unwind(AssertUnwindSafe(|| {
        let mut o = PestObs::default();
        match P::parse(rule, input) {
            Ok(pairs) => {
                o.ok = true;
                let toks: Vec<Tok> = pairs.map(pest_tok).collect();
                if wrapped {
                    let w = toks.into_iter().next().expect("wrapper pair");
                    o.end = Some(w.end);
                    o.tokens = w.kids;
                } else {
                    o.end = toks.first().map(|t| t.end);
                    o.tokens = toks;
                }
            }
            Err(e) => {
                o.err_pos = Some(match e.location {
                    pest::error::InputLocation::Pos(p) => p,
                    pest::error::InputLocation::Span((a, _)) => a,
                });
            }
        }
        o
    })) {
        Ok(o) => o,
        Err(e) => PestObs { panicked: Some(panic_msg(e)), ..PestObs::default() },
    }
}

// ---------------------------------------------------------------------------------------
// C16: flattening of getter results

/// A referenced node as the getters return it.
pub trait Leaf {
    fn info(&self, out: &mut String);
}

/// Rendering helper for rule structs (used by the generated `Leaf` impls).
pub fn rule_leaf<'i, R: RuleType, T: Pairs<'i, R>>(t: &T, name: &str, span: Option<(usize, usize)>, out: &mut String) {
    out.push_str(name);
    if let Some((a, b)) = span {
        out.push_str(&format!("@{}..{}", a, b));
    }
    let toks: Vec<Tok> = t.self_or_children().iter().map(tok_of).collect();
    out.push('[');
    out.push_str(&verif_core::interp::render_toks(&toks));
    out.push(']');
}

pub trait Flat {
    fn flat(&self, out: &mut String);
}
impl<T: Leaf> Flat for &T {
    fn flat(&self, out: &mut String) {
        (*self).info(out)
    }
}
impl<F: Flat> Flat for Option<F> {
    fn flat(&self, out: &mut String) {
        match self {
            Some(x) => {
                out.push('?');
                x.flat(out)
            }
            None => out.push('-'),
        }
    }
}
impl<F: Flat> Flat for Vec<F> {
    fn flat(&self, out: &mut String) {
        out.push('[');
        for (i, x) in self.iter().enumerate() {
            if i > 0 {
                out.push(',');
            }
            x.flat(out);
        }
        out.push(']');
    }
}
macro_rules! flat_tuple {
    ($($T:ident $i:tt),+) => {
        impl<$($T: Flat),+> Flat for ($($T,)+) {
            fn flat(&self, out: &mut String) {
                out.push('(');
                $(
                    if $i > 0 { out.push(','); }
                    self.$i.flat(out);
                )+
                out.push(')');
            }
        }
    };
}
flat_tuple!(A 0, B 1);
flat_tuple!(A 0, B 1, C 2);
flat_tuple!(A 0, B 1, C 2, D 3);
flat_tuple!(A 0, B 1, C 2, D 3, E 4);
flat_tuple!(A 0, B 1, C 2, D 3, E 4, F 5);
flat_tuple!(A 0, B 1, C 2, D 3, E 4, F 5, G 6);
flat_tuple!(A 0, B 1, C 2, D 3, E 4, F 5, G 6, H 7);
flat_tuple!(A 0, B 1, C 2, D 3, E 4, F 5, G 6, H 7, I 8);
flat_tuple!(A 0, B 1, C 2, D 3, E 4, F 5, G 6, H 7, I 8, J 9);
flat_tuple!(A 0, B 1, C 2, D 3, E 4, F 5, G 6, H 7, I 8, J 9, K 10);
flat_tuple!(A 0, B 1, C 2, D 3, E 4, F 5, G 6, H 7, I 8, J 9, K 10, L 11);

pub fn flat<F: Flat>(f: &F) -> String {
    let mut s = String::new();
    f.flat(&mut s);
    s
}

// built-in nodes as leaves
mod builtin_leaves {
    use super::Leaf;
    use pest_typed::choices::{Choice2, Choice3};
    use pest_typed::predefined_node::*;
    impl Leaf for ANY {
        fn info(&self, out: &mut String) {
            out.push_str(&format!("{:?}", self.content));
        }
    }
    impl<const A: char, const B: char> Leaf for CharRange<A, B> {
        fn info(&self, out: &mut String) {
            out.push_str(&format!("{:?}", self.content));
        }
    }
    impl<X: Leaf, Y: Leaf> Leaf for Choice2<X, Y> {
        fn info(&self, out: &mut String) {
            match self {
                Choice2::_0(x) => x.info(out),
                Choice2::_1(x) => x.info(out),
            }
        }
    }
    impl<X: Leaf, Y: Leaf, Z: Leaf> Leaf for Choice3<X, Y, Z> {
        fn info(&self, out: &mut String) {
            match self {
                Choice3::_0(x) => x.info(out),
                Choice3::_1(x) => x.info(out),
                Choice3::_2(x) => x.info(out),
            }
        }
    }
    impl Leaf for SOI {
        fn info(&self, out: &mut String) {
            out.push_str("SOI");
        }
    }
    impl Leaf for DROP {
        fn info(&self, out: &mut String) {
            out.push_str("DROP");
        }
    }
    impl Leaf for NEWLINE {
        fn info(&self, out: &mut String) {
            out.push_str(match self.content {
                NewLineType::CRLF => "NL:CRLF",
                NewLineType::LF => "NL:LF",
                NewLineType::CR => "NL:CR",
            });
        }
    }
    impl<'i> Leaf for PEEK<'i> {
        fn info(&self, out: &mut String) {
            out.push_str(&format!("PEEK@{}..{}", self.span.start(), self.span.end()));
        }
    }
    impl<'i> Leaf for PEEK_ALL<'i> {
        fn info(&self, out: &mut String) {
            out.push_str(&format!("PEEK_ALL@{}..{}", self.span.start(), self.span.end()));
        }
    }
    impl<'i> Leaf for POP_ALL<'i> {
        fn info(&self, out: &mut String) {
            out.push_str(&format!("POP_ALL@{}..{}", self.span.start(), self.span.end()));
        }
    }
    impl<'i> Leaf for POP<'i> {
        fn info(&self, out: &mut String) {
            out.push_str(&format!("POP{:?}", self.span.as_str()));
        }
    }
    macro_rules! uni {
        ($($n:ident),*) => { $(
            impl Leaf for unicode::$n {
                fn info(&self, out: &mut String) {
                    out.push_str(&format!("{:?}", self.content));
                }
            }
        )* };
    }
    uni!(LETTER, NUMBER, UPPERCASE_LETTER, LOWERCASE_LETTER, HAN, EMOJI, PUNCTUATION, ALPHABETIC, GREEK, WHITE_SPACE);
}
