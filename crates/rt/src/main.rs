//! Run-time-only checks (no generated grammar): C12, C13, C14, C19.
//!
//! usage: verif_rt <c12|c13|c14|c19> [--tier quick|thorough] [--seed N]
//!        verif_rt replay <file>
//!
//! exit 0: property held on everything explored (KNOWN-FINDING lines possible)
//! exit 1: `VIOLATION property=<id> replay=<path>` printed
//! exit 2: infrastructure problem

use verif_rt::{c12, c13, c14, c19};

use verif_core::common::Args;

fn main() {
    let args = Args::parse();
    let cmd = args.positional.first().map(|s| s.as_str()).unwrap_or("");
    // Panics inside checked code are caught with catch_unwind; keep their messages quiet.
    if std::env::var("VERIF_SHOW_PANICS").is_err() { std::panic::set_hook(Box::new(|_| {})); }
    let code = match std::panic::catch_unwind(|| dispatch(cmd, &args)) {
        Ok(c) => c,
        Err(_) => {
            eprintln!("verif_rt: internal error (harness panic) - inconclusive");
            2
        }
    };
    std::process::exit(code);
}

fn dispatch(cmd: &str, args: &Args) -> i32 {
    match cmd {
        "c12" => c12::run(&args),
        "c13" => c13::run(&args),
        "c14" => c14::run(&args),
        "c19" => c19::run(&args),
        "replay" => {
            let path = args.positional.get(1).expect("replay <file>");
            let txt = std::fs::read_to_string(path).expect("read replay file");
            let v: serde_json::Value = serde_json::from_str(&txt).expect("replay json");
            match v["property"].as_str().unwrap_or("") {
                "C12" => c12::replay(&v, path),
                "C13" => c13::replay(&v, path),
                "C14" => c14::replay(&v, path),
                "C19" => c19::replay(&v, path),
                p => {
                    eprintln!("verif_rt cannot replay property {:?}", p);
                    2
                }
            }
        }
        _ => {
            eprintln!("usage: verif_rt <c12|c13|c14|c19|replay> ...");
            2
        }
    }
}
