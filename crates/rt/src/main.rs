//! Run-time-only checks (no generated grammar): C12, C13, C14, C19.
//!
//! usage: verif_rt <c12|c13|c14|c19> [--tier quick|thorough] [--seed N]
//!        verif_rt replay <file>
//!
//! exit 0: property held on everything explored (KNOWN-FINDING lines possible)
//! exit 1: `VIOLATION property=<id> replay=<path>` printed
//! exit 2: infrastructure problem

use verif_rt::{c12, c13, c14, c19};

use verif_core::common::Args;

fn main() {
    let args = Args::parse();
    let cmd = args.positional.first().map(|s| s.as_str()).unwrap_or("");
    // Panics inside checked code are caught with catch_unwind; keep their messages quiet.
    if std::env::var("VERIF_SHOW_PANICS").is_err() { std::panic::set_hook(Box::new(|_| {})); }
    let code = match std::panic::catch_unwind(|| dispatch(cmd, &args)) {
        Ok(c) => c,
        Err(_) => {
            eprintln!("verif_rt: internal error (harness panic) - inconclusive");
            2
        }
    };
    std::process::exit(code);
}

fn dispatch(cmd: &str, args: &Args) -> i32 {
    match cmd {
        "c12" => c12::run(&args),
        "c13" => c13::run(&args),
        "c14" => c14::run(&args),
        "c19" => c19::run(&args),
        "fuzzmerge" => {
            // amend the evidence of a text-level property with the libFuzzer campaign's figures;
            // an artifact (crashing input) is re-executed and becomes a replay file
            let prop = args.positional.get(1).expect("fuzzmerge <c12|c13|c14>").to_uppercase();
            let log = std::fs::read_to_string(args.get("log").unwrap_or("")).unwrap_or_default();
            let mut stats = serde_json::Map::new();
            for l in log.lines().rev() {
                if l.starts_with('#') && (l.contains("DONE") || l.contains("cov:")) {
                    let toks: Vec<&str> = l.split_whitespace().collect();
                    stats.insert("executions".into(), serde_json::json!(toks[0].trim_start_matches('#').parse::<u64>().unwrap_or(0)));
                    for w in toks.windows(2) {
                        match w[0] {
                            "cov:" => { stats.insert("coverage_edges".into(), serde_json::json!(w[1].parse::<u64>().unwrap_or(0))); }
                            "ft:" => { stats.insert("features".into(), serde_json::json!(w[1].parse::<u64>().unwrap_or(0))); }
                            "corp:" => { stats.insert("corpus".into(), serde_json::json!(w[1])); }
                            _ => {}
                        }
                    }
                    break;
                }
            }
            let ev_path = verif_core::common::verif_root().join("evidence").join(format!("{}.json", prop));
            let mut ev: serde_json::Value = std::fs::read_to_string(&ev_path).ok().and_then(|t| serde_json::from_str(&t).ok()).unwrap_or(serde_json::json!({}));
            let mut code = 0;
            if let Some(art) = args.get("artifact") {
                let data = std::fs::read(art).unwrap_or_default();
                let r = std::panic::catch_unwind(|| match prop.as_str() {
                    "C12" => c12::fuzz_one(&data),
                    "C13" => c13::fuzz_one(&data),
                    _ => c14::fuzz_one(&data),
                });
                if let Err(e) = r {
                    let msg = e.downcast_ref::<String>().cloned().unwrap_or_default();
                    let doc: serde_json::Value = msg.strip_prefix("VIOLATION-DOC ").and_then(|d| serde_json::from_str(d).ok()).unwrap_or(serde_json::json!({"property": prop, "why": msg, "artifact": art}));
                    verif_core::common::report_violation(&prop, &doc);
                    ev["violations"] = serde_json::json!(1);
                    stats.insert("crashing_input".into(), serde_json::json!(art));
                    code = 1;
                }
            }
            if let Some(cov) = ev.get_mut("coverage").and_then(|c| c.as_object_mut()) {
                cov.insert("libfuzzer".into(), serde_json::Value::Object(stats));
            }
            let _ = std::fs::write(&ev_path, serde_json::to_string_pretty(&ev).unwrap_or_default());
            code
        }
        "replay" => {
            let path = args.positional.get(1).expect("replay <file>");
            let txt = std::fs::read_to_string(path).expect("read replay file");
            let v: serde_json::Value = serde_json::from_str(&txt).expect("replay json");
            match v["property"].as_str().unwrap_or("") {
                "C12" => c12::replay(&v, path),
                "C13" => c13::replay(&v, path),
                "C14" => c14::replay(&v, path),
                "C19" => c19::replay(&v, path),
                p => {
                    eprintln!("verif_rt cannot replay property {:?}", p);
                    2
                }
            }
        }
        _ => {
            eprintln!("usage: verif_rt <c12|c13|c14|c19|replay> ...");
            2
        }
    }
}
