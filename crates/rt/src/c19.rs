use serde_json::Value;
use verif_core::common::Args;
pub fn run(_args: &Args) -> i32 { eprintln!("C19 not built yet"); 2 }
pub fn replay(_v: &Value, _path: &str) -> i32 { 2 }
