//! C19 — counted repetition and the raw combinators obey their stated bounds.
//!
//! The combinators are instantiated directly from the runtime crate (no generated grammar)
//! and compared with a small model written from the statement of the property.

use crate::util::for_all_strings;
use pest_typed::choices::Choice2;
use pest_typed::predefined_node::{AtomicRepeat, Push, RepExact, RepMin, RepMinMax, SkipChar, Str, POP};
use pest_typed::tracker::Tracker;
use pest_typed::{Position, Span, Stack, StringWrapper, TypedNode};
use serde_json::{json, Value};
use verif_core::common::{fnv, report_violation, show, Args, Evidence, Tier};

#[derive(Clone, Copy, Debug, Eq, Hash, Ord, PartialEq, PartialOrd)]
pub enum R {
    #[allow(clippy::upper_case_acronyms)]
    EOI,
}

macro_rules! wrapper {
    ($name:ident, $s:expr) => {
        #[derive(Clone, PartialEq, Eq, Hash, Debug)]
        pub struct $name;
        impl StringWrapper for $name {
            const CONTENT: &'static str = $s;
        }
    };
}
wrapper!(WA, "a");
wrapper!(WAB, "ab");
wrapper!(WSP, " ");
wrapper!(WE, "é");

type Ign = AtomicRepeat<Str<WSP>>;
type ElStr = Str<WA>;
type ElChoice = Choice2<Str<WAB>, Str<WA>>;
type ElNested = RepMinMax<Str<WA>, Ign, 0, 1, 2>;
type ElPush = Push<Str<WA>>;
type ElUni = Choice2<Str<WE>, Str<WA>>;

// ---------------------------------------------------------------------------------------
// the model

#[derive(Clone, Debug)]
enum M {
    Str(&'static str),
    Choice(Vec<M>),
    /// greedy repetition: element, skip blanks between iterations, min, max (None = unbounded)
    Rep(Box<M>, bool, usize, Option<usize>),
    Pair(Box<M>, Box<M>),
    Opt(Box<M>),
    Array(Box<M>, usize),
    SkipChar(usize),
    Push(Box<M>),
    Pop,
}

/// What a match looks like: end offset and, for the outermost repetition, the number of
/// blanks skipped before each element.
#[derive(Clone, Debug, PartialEq)]
struct Out {
    end: usize,
    skipped: Vec<usize>,
}

fn model(m: &M, input: &str, pos: usize, stack: &mut Vec<String>) -> Option<Out> {
    let rest = &input[pos..];
    match m {
        M::Str(s) => rest.starts_with(s).then(|| Out { end: pos + s.len(), skipped: vec![] }),
        M::Choice(alts) => {
            for a in alts {
                let saved = stack.clone();
                if let Some(o) = model(a, input, pos, stack) {
                    return Some(o);
                }
                *stack = saved;
            }
            None
        }
        M::Rep(inner, skip, min, max) => {
            let mut p = pos;
            let mut skipped = vec![];
            let mut n = 0usize;
            loop {
                if let Some(mx) = max {
                    if n >= *mx {
                        break; // stops at MAX even if more could match
                    }
                }
                let saved = stack.clone();
                let mut q = p;
                let mut blanks = 0;
                if n > 0 && *skip {
                    while input[q..].starts_with(' ') {
                        q += 1;
                        blanks += 1;
                    }
                }
                match model(inner, input, q, stack) {
                    Some(o) => {
                        // a skip is only kept when an iteration follows it
                        p = o.end;
                        skipped.push(blanks);
                        n += 1;
                    }
                    None => {
                        *stack = saved;
                        break;
                    }
                }
            }
            (n >= *min).then_some(Out { end: p, skipped })
        }
        M::Pair(a, b) => {
            let o1 = model(a, input, pos, stack)?;
            let o2 = model(b, input, o1.end, stack)?;
            Some(Out { end: o2.end, skipped: vec![] })
        }
        M::Opt(inner) => {
            let saved = stack.clone();
            match model(inner, input, pos, stack) {
                Some(o) => Some(Out { end: o.end, skipped: vec![] }),
                None => {
                    *stack = saved;
                    Some(Out { end: pos, skipped: vec![] })
                }
            }
        }
        M::Array(inner, n) => {
            let mut p = pos;
            for _ in 0..*n {
                p = model(inner, input, p, stack)?.end;
            }
            Some(Out { end: p, skipped: vec![] })
        }
        M::SkipChar(n) => {
            let mut it = rest.char_indices();
            let mut end = 0;
            for _ in 0..*n {
                let (i, c) = it.next()?;
                end = i + c.len_utf8();
            }
            Some(Out { end: pos + end, skipped: vec![] })
        }
        M::Push(inner) => {
            let o = model(inner, input, pos, stack)?;
            stack.push(input[pos..o.end].to_string());
            Some(o)
        }
        M::Pop => {
            let top = stack.last()?.clone();
            if rest.starts_with(&top) {
                stack.pop();
                Some(Out { end: pos + top.len(), skipped: vec![] })
            } else {
                None
            }
        }
    }
}

// ---------------------------------------------------------------------------------------
// the typed side

#[derive(Debug, PartialEq, Clone)]
struct Obs {
    parse: Option<usize>,
    check: Option<usize>,
    count: Option<usize>,
    skipped: Option<Vec<usize>>,
    stack_parse: Vec<String>,
    stack_check: Vec<String>,
}

trait Probe<'i>: TypedNode<'i, R> {
    fn count(&self) -> Option<usize> {
        None
    }
    fn skipped(&self) -> Option<Vec<usize>> {
        None
    }
}
impl<'i, W: StringWrapper + 'static> Probe<'i> for Str<W> {}
impl<'i, A: Probe<'i>, B: Probe<'i>> Probe<'i> for Choice2<A, B> {}
impl<'i, const N: usize> Probe<'i> for SkipChar<'i, N> {}
impl<'i, T: Probe<'i>> Probe<'i> for Option<T> {}
impl<'i, T: Probe<'i>, const N: usize> Probe<'i> for [T; N] {}
impl<'i, A: Probe<'i>, B: Probe<'i>> Probe<'i> for (A, B) {}
impl<'i, T: Probe<'i>> Probe<'i> for Push<T> {}
impl<'i> Probe<'i> for POP<'i> {}
impl<'i, T: Probe<'i>> Probe<'i> for AtomicRepeat<T> {
    fn count(&self) -> Option<usize> {
        Some(self.content.len())
    }
}
impl<'i, T: Probe<'i>, const SKIP: usize, const MIN: usize> Probe<'i> for RepMin<T, Ign, SKIP, MIN> {
    fn count(&self) -> Option<usize> {
        Some(self.content.len())
    }
    fn skipped(&self) -> Option<Vec<usize>> {
        Some(self.content.iter().map(|s| s.skipped.iter().map(|x| x.content.len()).sum()).collect())
    }
}
impl<'i, T: Probe<'i>, const SKIP: usize, const MIN: usize, const MAX: usize> Probe<'i> for RepMinMax<T, Ign, SKIP, MIN, MAX> {
    fn count(&self) -> Option<usize> {
        Some(self.content.len())
    }
    fn skipped(&self) -> Option<Vec<usize>> {
        Some(self.content.iter().map(|s| s.skipped.iter().map(|x| x.content.len()).sum()).collect())
    }
}

fn stack_texts(s: &Stack<Span<'_>>) -> Vec<String> {
    s[0..s.len()].iter().map(|x| x.as_str().to_string()).collect()
}

fn observe<'i, T: Probe<'i>>(input: &'i str) -> Result<Obs, String> {
    crate::util::catch(|| {
        let pos = Position::from_start(input);
        let mut stack = Stack::new();
        let mut tracker = Tracker::<R>::new(pos);
        let p = T::try_parse_partial_with(pos, &mut stack, &mut tracker);
        let stack_parse = stack_texts(&stack);
        let mut stack2 = Stack::new();
        let mut tracker2 = Tracker::<R>::new(pos);
        let c = T::try_check_partial_with(pos, &mut stack2, &mut tracker2);
        Obs {
            parse: p.as_ref().map(|(i, _)| i.pos()),
            check: c.map(|i| i.pos()),
            count: p.as_ref().and_then(|(_, t)| t.count()),
            skipped: p.as_ref().and_then(|(_, t)| t.skipped()),
            stack_parse,
            stack_check: stack_texts(&stack2),
        }
    })
}

macro_rules! ob {
    ($t:ty) => {{
        fn f(s: &str) -> Result<Obs, String> {
            observe::<$t>(s)
        }
        f
    }};
}

struct Case {
    name: String,
    model: M,
    run: fn(&str) -> Result<Obs, String>,
    min: usize,
    max: Option<usize>,
    is_rep: bool,
    skip: bool,
}

fn el_model(kind: u8) -> M {
    match kind {
        0 => M::Str("a"),
        1 => M::Choice(vec![M::Str("ab"), M::Str("a")]),
        2 => M::Rep(Box::new(M::Str("a")), false, 1, Some(2)),
        3 => M::Push(Box::new(M::Str("a"))),
        _ => M::Choice(vec![M::Str("é"), M::Str("a")]),
    }
}

macro_rules! push_minmax {
    ($v:expr, $el:ty, $kind:expr, $kname:expr, $skip:expr, [$(($min:expr, $max:expr)),*]) => {
        $(
            $v.push(Case {
                name: format!("RepMinMax<{}, SKIP={}, {}, {}>", $kname, $skip, $min, $max),
                model: M::Rep(Box::new(el_model($kind)), $skip == 1, $min, Some($max)),
                run: ob!(RepMinMax<$el, Ign, $skip, $min, $max>),
                min: $min, max: Some($max), is_rep: true, skip: $skip == 1,
            });
        )*
    };
}
macro_rules! push_min {
    ($v:expr, $el:ty, $kind:expr, $kname:expr, $skip:expr, [$($min:expr),*]) => {
        $(
            $v.push(Case {
                name: format!("RepMin<{}, SKIP={}, {}>", $kname, $skip, $min),
                model: M::Rep(Box::new(el_model($kind)), $skip == 1, $min, None),
                run: ob!(RepMin<$el, Ign, $skip, $min>),
                min: $min, max: None, is_rep: true, skip: $skip == 1,
            });
        )*
    };
}
macro_rules! push_exact {
    ($v:expr, $el:ty, $kind:expr, $kname:expr, $skip:expr, [$($n:expr),*]) => {
        $(
            $v.push(Case {
                name: format!("RepExact<{}, SKIP={}, {}>", $kname, $skip, $n),
                model: M::Rep(Box::new(el_model($kind)), $skip == 1, $n, Some($n)),
                run: ob!(RepExact<$el, Ign, $skip, $n>),
                min: $n, max: Some($n), is_rep: true, skip: $skip == 1,
            });
        )*
    };
}
macro_rules! all_reps {
    ($v:expr, $el:ty, $kind:expr, $kname:expr) => {
        push_minmax!($v, $el, $kind, $kname, 0, [(0,0),(0,1),(0,2),(0,3),(0,4),(1,1),(1,2),(1,3),(1,4),(2,2),(2,3),(2,4),(3,3),(3,4),(4,4)]);
        push_minmax!($v, $el, $kind, $kname, 1, [(0,0),(0,1),(0,2),(0,3),(0,4),(1,1),(1,2),(1,3),(1,4),(2,2),(2,3),(2,4),(3,3),(3,4),(4,4)]);
        push_min!($v, $el, $kind, $kname, 0, [0, 1, 2, 3, 4]);
        push_min!($v, $el, $kind, $kname, 1, [0, 1, 2, 3, 4]);
        push_exact!($v, $el, $kind, $kname, 0, [0, 1, 2, 3, 4]);
        push_exact!($v, $el, $kind, $kname, 1, [0, 1, 2, 3, 4]);
    };
}

fn simple(name: &str, model: M, run: fn(&str) -> Result<Obs, String>) -> Case {
    Case { name: name.to_string(), model, run, min: 0, max: None, is_rep: false, skip: false }
}

fn cases(unicode: bool) -> Vec<Case> {
    let mut v = vec![];
    if unicode {
        all_reps!(v, ElUni, 4, "Choice2<é,a>");
        v.push(simple("SkipChar<0>", M::SkipChar(0), ob!(SkipChar<'_, 0>)));
        v.push(simple("SkipChar<1>", M::SkipChar(1), ob!(SkipChar<'_, 1>)));
        v.push(simple("SkipChar<2>", M::SkipChar(2), ob!(SkipChar<'_, 2>)));
        v.push(simple("SkipChar<3>", M::SkipChar(3), ob!(SkipChar<'_, 3>)));
        v.push(simple("[Choice2<é,a>; 2]", M::Array(Box::new(el_model(4)), 2), ob!([ElUni; 2])));
        return v;
    }
    all_reps!(v, ElStr, 0, "Str<a>");
    all_reps!(v, ElChoice, 1, "Choice2<ab,a>");
    all_reps!(v, ElNested, 2, "RepMinMax<Str<a>,0,1,2>");
    all_reps!(v, ElPush, 3, "Push<Str<a>>");
    v.push(simple("[Str<a>; 0]", M::Array(Box::new(el_model(0)), 0), ob!([ElStr; 0])));
    v.push(simple("[Str<a>; 1]", M::Array(Box::new(el_model(0)), 1), ob!([ElStr; 1])));
    v.push(simple("[Str<a>; 2]", M::Array(Box::new(el_model(0)), 2), ob!([ElStr; 2])));
    v.push(simple("[Str<a>; 3]", M::Array(Box::new(el_model(0)), 3), ob!([ElStr; 3])));
    v.push(simple("[Choice2<ab,a>; 2]", M::Array(Box::new(el_model(1)), 2), ob!([ElChoice; 2])));
    v.push(simple("[Choice2<ab,a>; 3]", M::Array(Box::new(el_model(1)), 3), ob!([ElChoice; 3])));
    v.push(simple("(Str<a>, Choice2<ab,a>)", M::Pair(Box::new(el_model(0)), Box::new(el_model(1))), ob!((ElStr, ElChoice))));
    v.push(simple("(Choice2<ab,a>, Str<a>)", M::Pair(Box::new(el_model(1)), Box::new(el_model(0))), ob!((ElChoice, ElStr))));
    v.push(simple("Option<Str<a>>", M::Opt(Box::new(el_model(0))), ob!(Option<ElStr>)));
    v.push(simple("Option<(Push<a>, Str<ab>)>", M::Opt(Box::new(M::Pair(Box::new(el_model(3)), Box::new(M::Str("ab"))))), ob!(Option<(ElPush, Str<WAB>)>)));
    v.push(simple("(Option<Choice2<ab,a>>, Str<a>)", M::Pair(Box::new(M::Opt(Box::new(el_model(1)))), Box::new(el_model(0))), ob!((Option<ElChoice>, ElStr))));
    v.push(simple("SkipChar<0>", M::SkipChar(0), ob!(SkipChar<'_, 0>)));
    v.push(simple("SkipChar<1>", M::SkipChar(1), ob!(SkipChar<'_, 1>)));
    v.push(simple("SkipChar<2>", M::SkipChar(2), ob!(SkipChar<'_, 2>)));
    v.push(simple("SkipChar<3>", M::SkipChar(3), ob!(SkipChar<'_, 3>)));
    v.push(Case { name: "AtomicRepeat<Choice2<ab,a>>".into(), model: M::Rep(Box::new(el_model(1)), false, 0, None), run: ob!(AtomicRepeat<ElChoice>), min: 0, max: None, is_rep: true, skip: false });
    v.push(Case { name: "AtomicRepeat<Str< >>".into(), model: M::Rep(Box::new(M::Str(" ")), false, 0, None), run: ob!(AtomicRepeat<Str<WSP>>), min: 0, max: None, is_rep: true, skip: false });
    // pushes followed by pops: a stack-using pair of repetitions
    v.push(simple(
        "(RepMin<Push<a>,SKIP=1,1>, RepMinMax<POP,SKIP=1,0,2>)",
        M::Pair(Box::new(M::Rep(Box::new(el_model(3)), true, 1, None)), Box::new(M::Rep(Box::new(M::Pop), true, 0, Some(2)))),
        ob!((RepMin<ElPush, Ign, 1, 1>, RepMinMax<POP<'_>, Ign, 1, 0, 2>)),
    ));
    v.push(simple(
        "(Push<Choice2<ab,a>>, RepMinMax<(POP, Str<a>),SKIP=0,0,3>)",
        M::Pair(Box::new(M::Push(Box::new(el_model(1)))), Box::new(M::Rep(Box::new(M::Pair(Box::new(M::Pop), Box::new(M::Str("a")))), false, 0, Some(3)))),
        ob!((Push<ElChoice>, RepMinMax<(POP<'_>, ElStr), Ign, 0, 0, 3>)),
    ));
    v
}

fn check_one(c: &Case, input: &str, ev: &mut Evidence) -> Option<Value> {
    ev.eval();
    let mut stack = vec![];
    let want = model(&c.model, input, 0, &mut stack);
    let bad = |why: String| Some(json!({"property": "C19", "combinator": c.name, "input": input, "why": why}));
    let o = match (c.run)(input) {
        Ok(o) => o,
        Err(p) => return bad(format!("panic: {}", p)),
    };
    let want_end = want.as_ref().map(|w| w.end);
    if o.parse != want_end {
        return bad(format!("parse stops at {:?}, the model at {:?}", o.parse, want_end));
    }
    if o.check != o.parse {
        return bad(format!("check stops at {:?}, parse at {:?}", o.check, o.parse));
    }
    if want.is_some() {
        if o.stack_parse != stack || o.stack_check != stack {
            return bad(format!("final stack: parse {:?}, check {:?}, model {:?}", o.stack_parse, o.stack_check, stack));
        }
    } else if o.stack_parse != o.stack_check {
        return bad(format!("final stacks of parse {:?} and check {:?} differ", o.stack_parse, o.stack_check));
    }
    if let (Some(w), true) = (&want, c.is_rep) {
        let n = o.count.unwrap_or(usize::MAX);
        if n < c.min || c.max.map(|m| n > m).unwrap_or(false) {
            return bad(format!("{} elements, bounds are {}..{:?}", n, c.min, c.max));
        }
        if n != w.skipped.len() {
            return bad(format!("{} elements, the model matches {}", n, w.skipped.len()));
        }
        if let Some(sk) = &o.skipped {
            let want_sk: Vec<usize> = if c.skip { w.skipped.clone() } else { vec![0; n] };
            if *sk != want_sk {
                return bad(format!("blanks skipped before the elements: {:?}, model {:?}", sk, want_sk));
            }
        }
    }
    // non-trivial: more potential iterations than MIN, or a trailing blank after the match
    let nontrivial = match &want {
        Some(w) => (c.is_rep && w.skipped.len() > c.min) || input[w.end..].starts_with(' ') || !stack.is_empty(),
        None => c.is_rep && input.contains('a'),
    };
    if nontrivial {
        ev.nontrivial(fnv(format!("{}\u{0}{}", c.name, input).as_bytes()));
        let class = if want.is_none() { "fewer_than_min" } else if input[want.as_ref().unwrap().end..].starts_with(' ') { "trailing_blank_given_back" } else if c.max.map(|m| want.as_ref().unwrap().skipped.len() == m).unwrap_or(false) { "stopped_at_max" } else { "greedy" };
        ev.count(&format!("class.{}", class));
        ev.sample(class, json!({"combinator": c.name, "input": show(input), "end": want_end, "elements": want.as_ref().map(|w| w.skipped.len())}));
    }
    None
}

pub fn run(args: &Args) -> i32 {
    let tier = args.tier();
    let seed = args.seed();
    let mut ev = Evidence::new(
        "C19",
        tier,
        seed,
        "exhaustive: RepMin / RepMinMax / RepExact instantiated directly from the runtime crate for all MIN<=MAX in 0..4, SKIP in {0,1}, element in {Str, Choice2 of overlapping strings, nested RepMinMax, Push}, skip type AtomicRepeat<Str<blank>>; [T;N] N=0..3, (T1,T2), Option<T>, SkipChar<N> N=0..3, AtomicRepeat, pairs of pushing and popping repetitions x all strings up to length 8 (thorough 9) over {a,b,blank} and up to length 5 (6) with a 2-byte letter added. Oracle: a model written from the statement (greedy, skip only between iterations and only kept when an iteration follows, stop at MAX, fail iff fewer than MIN; arrays/pairs/optionals/skip-n as plain concatenation; failed iterations and optionals restore the stack): verdict, offset, element count within bounds, blanks skipped per element, final stack, parse vs check. Non-trivial = more iterations were possible than MIN, or a blank follows the match, or the stack is used; distinct by (combinator, input).",
    );
    ev.assumptions.push("the model in crates/rt/src/c19.rs is the statement of C19 made executable".into());
    let mut violation = None;
    let (max_ascii, max_uni) = match tier {
        Tier::Quick => (8, 5),
        Tier::Thorough => (9, 6),
    };
    let table = cases(false);
    ev.extra.insert("combinator_instances".into(), json!(table.len()));
    for_all_strings(&['a', 'b', ' '], max_ascii, |s| {
        for c in &table {
            if let Some(v) = check_one(c, s, &mut ev) {
                violation = Some(v);
                return false;
            }
        }
        true
    });
    if violation.is_none() {
        let table = cases(true);
        ev.extra.insert("combinator_instances_unicode".into(), json!(table.len()));
        for_all_strings(&['a', 'é', ' ', 'b'], max_uni, |s| {
            for c in &table {
                if let Some(v) = check_one(c, s, &mut ev) {
                    violation = Some(v);
                    return false;
                }
            }
            true
        });
    }
    ev.exhaustive = Some(violation.is_none());
    if let Some(v) = violation {
        ev.violations = 1;
        ev.violation_sample(&v);
        ev.write();
        report_violation("C19", &v);
        return 1;
    }
    ev.write();
    println!("C19 ok: {} evaluations, {} distinct non-trivial", ev.evaluations, ev.distinct_nontrivial());
    0
}

pub fn replay(v: &Value, path: &str) -> i32 {
    let name = v["combinator"].as_str().unwrap_or("");
    let input = v["input"].as_str().unwrap_or("");
    let mut ev = Evidence::new("C19", Tier::Quick, 0, "replay");
    for table in [cases(false), cases(true)] {
        if let Some(c) = table.iter().find(|c| c.name == name) {
            if let Some(w) = check_one(c, input, &mut ev) {
                println!("still failing: {}", w["why"]);
                println!("VIOLATION property=C19 replay={}", path);
                return 1;
            }
            println!("replay passes");
            return 0;
        }
    }
    eprintln!("unknown combinator {}", name);
    2
}
