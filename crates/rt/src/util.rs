use proptest::test_runner::{Config, RngSeed, TestRunner};

/// Enumerate all strings of length 0..=max over `alphabet` (length-lexicographic order).
/// `f` returns false to stop early; the function returns false in that case.
pub fn for_all_strings(alphabet: &[char], max: usize, mut f: impl FnMut(&str) -> bool) -> bool {
    let k = alphabet.len() as u64;
    let mut s = String::new();
    for len in 0..=max {
        let total = k.pow(len as u32);
        for n in 0..total {
            s.clear();
            let mut div = total;
            let mut rem = n;
            for _ in 0..len {
                div /= k;
                s.push(alphabet[(rem / div) as usize]);
                rem %= div;
            }
            if !f(&s) {
                return false;
            }
        }
    }
    true
}

pub fn boundaries(s: &str) -> Vec<usize> {
    let mut v: Vec<usize> = s.char_indices().map(|(i, _)| i).collect();
    v.push(s.len());
    v
}

pub fn runner(seed: u64, cases: u32) -> TestRunner {
    TestRunner::new(Config {
        cases,
        failure_persistence: None,
        rng_seed: RngSeed::Fixed(seed),
        max_shrink_iters: 4096,
        ..Config::default()
    })
}

/// Build a text from a tape of small numbers: index into `alphabet`, with runs.
pub fn text_from_tape(tape: &[u8], alphabet: &[&str]) -> String {
    let mut s = String::new();
    for &b in tape {
        // monotone mapping (shrinks towards alphabet[0])
        let i = (b as usize * alphabet.len()) >> 8;
        s.push_str(alphabet[i]);
    }
    s
}

pub fn catch<T>(f: impl FnOnce() -> T) -> Result<T, String> {
    match std::panic::catch_unwind(std::panic::AssertUnwindSafe(f)) {
        Ok(v) => Ok(v),
        Err(e) => Err(if let Some(s) = e.downcast_ref::<&str>() {
            s.to_string()
        } else if let Some(s) = e.downcast_ref::<String>() {
            s.clone()
        } else {
            "panic".to_string()
        }),
    }
}
