//! C12 — line, column and line text of every position agree with pest.
//!
//! Oracle 1: pest::Position on the same (string, offset).  Oracle 2: a scanner written from
//! the prose of the property.  A case where pest and the prose disagree is *disputed* and is
//! only counted; a case where pest-typed differs from pest is a violation.

use crate::util::{boundaries, catch, for_all_strings, runner, text_from_tape};
use proptest::prelude::*;
use serde_json::{json, Value};
use verif_core::common::{fnv, report_violation, show, Args, Evidence, Tier};

const ALPHABET: [char; 6] = ['\n', '\r', 'a', 'é', '中', '😀'];

#[derive(Debug, Clone, PartialEq)]
struct Obs {
    some: bool,
    pos: usize,
    line_col: (usize, usize),
    line_of: String,
}

fn typed(s: &str, o: usize) -> Result<Option<Obs>, String> {
    catch(|| {
        pest_typed::Position::new(s, o).map(|p| Obs {
            some: true,
            pos: p.pos(),
            line_col: p.line_col(),
            line_of: p.line_of().to_string(),
        })
    })
}

fn pest_side(s: &str, o: usize) -> Option<Obs> {
    pest::Position::new(s, o).map(|p| Obs {
        some: true,
        pos: p.pos(),
        line_col: p.line_col(),
        line_of: p.line_of().to_string(),
    })
}

/// Written from the statement: lines end at LF; CRLF is one break (the LF); a lone CR is a
/// column; columns count characters; the offset at end of input belongs to the last line.
fn prose(s: &str, o: usize) -> Option<Obs> {
    if o > s.len() || !s.is_char_boundary(o) {
        return None;
    }
    let before = &s[..o];
    let line = 1 + before.matches('\n').count();
    let line_start = before.rfind('\n').map(|i| i + 1).unwrap_or(0);
    let col = 1 + s[line_start..o].chars().count();
    let line_end = s[o..].find('\n').map(|i| o + i + 1).unwrap_or(s.len());
    Some(Obs {
        some: true,
        pos: o,
        line_col: (line, col),
        line_of: s[line_start..line_end].to_string(),
    })
}

/// Returns Some(description) on violation.
fn check_one(s: &str, o: usize, ev: &mut Evidence) -> Option<Value> {
    ev.eval();
    let t = typed(s, o);
    let p = pest_side(s, o);
    let pr = prose(s, o);
    if p != pr {
        ev.count("disputed_pest_vs_prose");
    }
    let bad = match &t {
        Err(msg) => Some(format!("panic: {}", msg)),
        Ok(t) => {
            if *t != p {
                Some(format!("typed {:?} != pest {:?}", t, p))
            } else {
                None
            }
        }
    };
    if p.is_some() && (s.contains('\n') || s.contains('\r') || !s.is_ascii()) {
        ev.nontrivial(fnv(format!("{}\u{0}{}", s, o).as_bytes()));
        if let Some(p) = &p {
            let class = if s.contains("\r\n") {
                "crlf"
            } else if o == s.len() {
                "end_of_input"
            } else if !s.is_ascii() {
                "multibyte"
            } else {
                "linebreak"
            };
            ev.sample(class, json!({"string": show(s), "offset": o, "line_col": [p.line_col.0, p.line_col.1], "line_of": show(&p.line_of)}));
        }
    } else if p.is_none() {
        ev.count("non_boundary_offsets");
    }
    bad.map(|why| {
        json!({"property":"C12","string":s,"offset":o,"why":why,
               "pest": p.as_ref().map(|p| json!({"line_col":[p.line_col.0,p.line_col.1],"line_of":p.line_of})),
        })
    })
}

pub fn run(args: &Args) -> i32 {
    let tier = args.tier();
    let seed = args.seed();
    let mut ev = Evidence::new(
        "C12",
        tier,
        seed,
        "exhaustive: every string of length <=7 over {LF,CR,a,e-acute,CJK,emoji} and every string of length <=4 over {LF,CR,U+80,U+BF,U+7FF,U+800,U+FFFF,U+10FFFF} (encodings on the edges of the UTF-8 byte classes) x every byte offset 0..=len (boundary and non-boundary); random: texts up to 4 KiB with clustered line breaks x random offsets. Non-trivial = offset is valid and the string contains a line break or a multi-byte character; distinct by (string, offset).",
    );
    ev.assumptions.push("pest 2.7.14 Position::{new,line_col,line_of} is the reference".into());
    let max = match tier {
        Tier::Quick => 7,
        Tier::Thorough => 8,
    };
    let mut violation: Option<Value> = None;
    let mut strings = 0u64;
    for_all_strings(&ALPHABET, max, |s| {
        strings += 1;
        for o in 0..=s.len() + 1 {
            if let Some(v) = check_one(s, o, &mut ev) {
                violation = Some(v);
                return false;
            }
        }
        true
    });
    // second small scope: characters whose UTF-8 encodings sit on the edges of the byte classes
    // (continuation bytes 0x80 / 0xBF, smallest and largest lead bytes)
    if violation.is_none() {
        let edge: [char; 8] = ['\n', '\r', '\u{80}', '\u{bf}', '\u{7ff}', '\u{800}', '\u{ffff}', '\u{10ffff}'];
        for_all_strings(&edge, 4, |s| {
            strings += 1;
            for o in 0..=s.len() + 1 {
                if let Some(v) = check_one(s, o, &mut ev) {
                    violation = Some(v);
                    return false;
                }
            }
            true
        });
    }
    ev.extra.insert("exhaustive_strings".into(), json!(strings));
    ev.extra.insert("exhaustive_max_len".into(), json!(max));
    ev.exhaustive = Some(violation.is_none());

    // random long texts
    if violation.is_none() {
        let cases = tier.pick(3000u32, 60000u32);
        let mut r = runner(verif_core::common::sub_seed(seed, "C12"), cases);
        let alphabet: [&str; 18] = ["a", "\n", "\r\n", "\r", "é", "中", "😀", "b ", "\n\n", "xyz", "\u{bf}", "\u{ff}", "\u{feff}", "\u{fffd}", "\u{80}", "\u{7ff}", "\u{10ffff}", "\u{1f67f}"];
        let strat = (prop::collection::vec(any::<u8>(), 0..1500), any::<u16>());
        let evc = std::cell::RefCell::new(&mut ev);
        let res = r.run(&strat, |(tape, oi)| {
            let s = text_from_tape(&tape, &alphabet);
            let b = boundaries(&s);
            let o = b[(oi as usize * b.len()) >> 16];
            let mut ev = evc.borrow_mut();
            for cand in [o, o.saturating_sub(1), (o + 1).min(s.len())] {
                if let Some(v) = check_one(&s, cand, &mut ev) {
                    ev.frozen = true;
                    return Err(TestCaseError::fail(v.to_string()));
                }
            }
            ev.count("random_long_texts");
            Ok(())
        });
        ev.frozen = false;
        if let Err(proptest::test_runner::TestError::Fail(reason, _)) = res {
            violation = serde_json::from_str(&reason.message().to_string()).ok();
        }
    }
    finish(ev, violation)
}

fn finish(mut ev: Evidence, violation: Option<Value>) -> i32 {
    if let Some(v) = violation {
        ev.violations = 1;
        ev.violation_sample(&v);
        ev.write();
        report_violation("C12", &v);
        return 1;
    }
    ev.write();
    println!(
        "C12 ok: {} evaluations, {} distinct non-trivial, disputed {}",
        ev.evaluations,
        ev.distinct_nontrivial(),
        ev.counter("disputed_pest_vs_prose")
    );
    0
}

pub fn replay(v: &Value, path: &str) -> i32 {
    let s = v["string"].as_str().unwrap_or("");
    let o = v["offset"].as_u64().unwrap_or(0) as usize;
    let mut ev = Evidence::new("C12", Tier::Quick, 0, "replay");
    if check_one(s, o, &mut ev).is_some() {
        println!("VIOLATION property=C12 replay={}", path);
        1
    } else {
        println!("replay passes");
        0
    }
}

/// libFuzzer entry: bytes -> (text, offset); panics with the violation document on failure.
pub fn fuzz_one(data: &[u8]) {
    if data.is_empty() {
        return;
    }
    let s = String::from_utf8_lossy(&data[1..]).into_owned();
    let o = (data[0] as usize * (s.len() + 2)) >> 8;
    let mut ev = Evidence::new("C12", Tier::Thorough, 0, "fuzz");
    if let Some(v) = check_one(&s, o, &mut ev) {
        panic!("VIOLATION-DOC {}", v);
    }
}
