//! C13 — Span operations agree with pest's Span for every span.

use crate::util::{catch, for_all_strings, runner, text_from_tape};
use proptest::prelude::*;
use serde_json::{json, Value};
use std::collections::hash_map::DefaultHasher;
use std::hash::{Hash, Hasher};
use verif_core::common::{fnv, report_violation, show, sub_seed, Args, Evidence, Tier};

const ALPHABET: [char; 5] = ['\n', '\r', 'a', 'é', '中'];

type TS<'i> = pest_typed::Span<'i>;
type PS<'i> = pest::Span<'i>;

fn se_t(s: &TS<'_>) -> (usize, usize) {
    (s.start(), s.end())
}
fn se_p(s: &PS<'_>) -> (usize, usize) {
    (s.start(), s.end())
}

/// Everything observable about one valid span, as plain data.
#[derive(Debug, PartialEq, Clone)]
struct SpanObs {
    se: (usize, usize),
    start_pos: usize,
    end_pos: usize,
    split: (usize, usize),
    as_str: String,
    input_same: bool,
    lines: Vec<String>,
    lines_span: Vec<(usize, usize)>,
}

fn obs_t(input: &str, s: &TS<'_>) -> SpanObs {
    SpanObs {
        se: se_t(s),
        start_pos: s.start_pos().pos(),
        end_pos: s.end_pos().pos(),
        split: {
            let (a, b) = s.clone().split();
            (a.pos(), b.pos())
        },
        as_str: s.as_str().to_string(),
        input_same: std::ptr::eq(s.get_input(), input),
        lines: s.lines().map(|l| l.to_string()).collect(),
        lines_span: s.lines_span().map(|l| se_t(&l)).collect(),
    }
}
fn obs_p(input: &str, s: &PS<'_>) -> SpanObs {
    SpanObs {
        se: se_p(s),
        start_pos: s.start_pos().pos(),
        end_pos: s.end_pos().pos(),
        split: {
            let (a, b) = s.clone().split();
            (a.pos(), b.pos())
        },
        as_str: s.as_str().to_string(),
        input_same: std::ptr::eq(s.get_input(), input),
        lines: s.lines().map(|l| l.to_string()).collect(),
        lines_span: s.lines_span().map(|l| se_p(&l)).collect(),
    }
}

/// Invariants from the statement that need no reference: the lines are whole lines of the
/// input, in order, contiguous, each once, the first one holds the span's first character.
fn lines_invariant(input: &str, o: &SpanObs) -> Option<String> {
    let mut prev_end: Option<usize> = None;
    for (i, &(a, b)) in o.lines_span.iter().enumerate() {
        if a >= b {
            return Some(format!("empty line span {}..{}", a, b));
        }
        if !(a == 0 || input.as_bytes()[a - 1] == b'\n') {
            return Some(format!("line {} does not start at a line start", i));
        }
        if !(b == input.len() || input.as_bytes()[b - 1] == b'\n') {
            return Some(format!("line {} does not end at a line end", i));
        }
        if input.as_bytes()[a..b - 1].contains(&b'\n') {
            return Some(format!("line {} holds an inner LF", i));
        }
        if let Some(p) = prev_end {
            if p != a {
                return Some("lines not contiguous / not in order".into());
            }
        } else if !(a <= o.se.0 && o.se.0 < b) {
            return Some("first line does not hold the span start".into());
        }
        prev_end = Some(b);
        if o.lines[i] != input[a..b] {
            return Some("lines() text differs from lines_span()".into());
        }
    }
    if o.lines.len() != o.lines_span.len() {
        return Some("lines() and lines_span() differ in length".into());
    }
    // every line holding a character of the span must be listed
    if o.se.0 < o.se.1 {
        let last_char_at = o.se.1 - 1;
        let covered = o.lines_span.iter().any(|&(a, b)| a <= last_char_at && last_char_at < b);
        if !covered {
            return Some("the line of the span's last character is missing".into());
        }
    }
    None
}

fn hash_of<T: Hash>(t: &T) -> u64 {
    let mut h = DefaultHasher::new();
    t.hash(&mut h);
    h.finish()
}

struct Ctx<'e> {
    ev: &'e mut Evidence,
    get_forms: bool,
}

fn viol(s: &str, op: &str, args: Value, why: String) -> Value {
    json!({"property":"C13","string":s,"op":op,"args":args,"why":why})
}

/// Check everything for one input string.  Returns the first violation.
fn check_string(s: &str, cx: &mut Ctx<'_>) -> Option<Value> {
    let n = s.len();
    let mut valid_t: Vec<TS<'_>> = vec![];
    let mut valid_p: Vec<PS<'_>> = vec![];
    // Span::new on every pair, also invalid and non-boundary ones
    for a in 0..=n + 1 {
        for b in 0..=n + 1 {
            cx.ev.eval();
            let t = match catch(|| TS::new(s, a, b)) {
                Ok(t) => t,
                Err(m) => return Some(viol(s, "new", json!([a, b]), format!("panic: {}", m))),
            };
            let p = PS::new(s, a, b);
            if t.is_some() != p.is_some() {
                return Some(viol(s, "new", json!([a, b]), format!("typed is_some={} pest is_some={}", t.is_some(), p.is_some())));
            }
            if let (Some(t), Some(p)) = (t, p) {
                valid_t.push(t);
                valid_p.push(p);
            } else {
                cx.ev.count("invalid_ranges_rejected");
            }
        }
    }
    let interesting = s.contains('\n') || s.contains('\r') || !s.is_ascii();
    for (t, p) in valid_t.iter().zip(valid_p.iter()) {
        cx.ev.eval();
        let ot = match catch(|| obs_t(s, t)) {
            Ok(o) => o,
            Err(m) => return Some(viol(s, "observe", json!([t.start(), t.end()]), format!("panic: {}", m))),
        };
        let op = obs_p(s, p);
        if ot != op {
            return Some(viol(s, "observe", json!([p.start(), p.end()]), format!("typed {:?} != pest {:?}", ot, op)));
        }
        if let Some(why) = lines_invariant(s, &ot) {
            if lines_invariant(s, &op).is_some() {
                cx.ev.count("disputed_lines_invariant");
            } else {
                return Some(viol(s, "lines", json!([p.start(), p.end()]), why));
            }
        }
        if interesting && p.start() < p.end() {
            cx.ev.nontrivial(fnv(format!("{}\u{0}{}\u{0}{}", s, p.start(), p.end()).as_bytes()));
            let class = if ot.lines.len() >= 3 { "three_or_more_lines" } else if ot.lines.len() == 2 { "two_lines" } else { "one_line" };
            cx.ev.sample(class, json!({"string": show(s), "span": [p.start(), p.end()], "lines": ot.lines.iter().map(|l| show(l)).collect::<Vec<_>>()}));
        }
        // Span::get in every RangeBounds form
        let len = p.as_str().len();
        for a in 0..=len + 1 {
            for b in 0..=len + 1 {
                macro_rules! cmp_get {
                    ($form:expr, $r:expr) => {{
                        cx.ev.eval();
                        let gt = match catch(|| t.get($r)) {
                            Ok(g) => g,
                            Err(m) => return Some(viol(s, "get", json!([p.start(), p.end(), $form, a, b]), format!("panic: {}", m))),
                        };
                        let gp = p.get($r);
                        let same = match (&gt, &gp) {
                            (None, None) => true,
                            (Some(x), Some(y)) => se_t(x) == se_p(y) && x.as_str() == y.as_str() && std::ptr::eq(x.get_input(), s),
                            _ => false,
                        };
                        if !same {
                            return Some(viol(s, "get", json!([p.start(), p.end(), $form, a, b]),
                                format!("typed {:?} != pest {:?}", gt.map(|x| se_t(&x)), gp.map(|y| se_p(&y)))));
                        }
                        if gp.is_none() { cx.ev.count("get_rejected"); }
                    }};
                }
                cmp_get!("a..b", a..b);
                if cx.get_forms {
                    cmp_get!("a..=b", a..=b);
                    if a == 0 {
                        cmp_get!("..b", ..b);
                        cmp_get!("..=b", ..=b);
                    }
                    if b == 0 {
                        cmp_get!("a..", a..);
                    }
                    if a == 0 && b == 0 {
                        cmp_get!("..", ..);
                    }
                }
            }
        }
    }
    // merge_spans on all ordered pairs, Eq/Hash consistency
    for (i, (t1, p1)) in valid_t.iter().zip(valid_p.iter()).enumerate() {
        for (j, (t2, p2)) in valid_t.iter().zip(valid_p.iter()).enumerate() {
            cx.ev.eval();
            let mt = match catch(|| pest_typed::merge_spans(t1, t2)) {
                Ok(m) => m,
                Err(m) => return Some(viol(s, "merge", json!([se_p(p1), se_p(p2)]), format!("panic: {}", m))),
            };
            let mp = pest::merge_spans(p1, p2);
            let (a1, b1) = se_p(p1);
            let (a2, b2) = se_p(p2);
            // statement: succeeds exactly for overlapping or adjacent spans, yields the hull
            let expect = if b1 >= a2 && a1 <= b2 { Some((a1.min(a2), b1.max(b2))) } else { None };
            let got = mt.as_ref().map(se_t);
            if got != mp.as_ref().map(se_p) {
                return Some(viol(s, "merge", json!([[a1, b1], [a2, b2]]), format!("typed {:?} != pest {:?}", got, mp.map(|m| se_p(&m)))));
            }
            if got != expect {
                return Some(viol(s, "merge", json!([[a1, b1], [a2, b2]]), format!("typed {:?} != hull rule {:?}", got, expect)));
            }
            if expect.is_some() { cx.ev.count("merges_succeeded"); } else { cx.ev.count("merges_refused"); }
            // Eq / Hash on the same input object
            let eq = t1 == t2;
            if eq != (i == j) {
                return Some(viol(s, "eq", json!([[a1, b1], [a2, b2]]), format!("== gives {} for index {} vs {}", eq, i, j)));
            }
            if eq && hash_of(t1) != hash_of(t2) {
                return Some(viol(s, "hash", json!([[a1, b1], [a2, b2]]), "equal spans hash differently".into()));
            }
        }
    }
    None
}

pub fn run(args: &Args) -> i32 {
    let tier = args.tier();
    let seed = args.seed();
    let mut ev = Evidence::new(
        "C13",
        tier,
        seed,
        "exhaustive: every string up to the length bound over {LF,CR,a,e-acute,CJK} x every (start,end) byte pair 0..=len+1 for Span::new x for every valid span all observers, every sub-range (a,b) in 0..=len+1 in the forms a..b, a..=b, ..b, ..=b, a.., .. for get, and every ordered pair of valid spans for merge_spans/==/Hash; random: texts up to ~600 bytes. Non-trivial = valid non-empty span in a string with a line break or multi-byte character; distinct by (string,start,end).",
    );
    ev.assumptions.push("pest 2.7.14 Span / merge_spans is the reference".into());
    let max = tier.pick(5, 6);
    let mut violation = None;
    let mut strings = 0u64;
    {
        let mut cx = Ctx { ev: &mut ev, get_forms: true };
        for_all_strings(&ALPHABET, max, |s| {
            strings += 1;
            match check_string(s, &mut cx) {
                Some(v) => {
                    violation = Some(v);
                    false
                }
                None => true,
            }
        });
    }
    ev.extra.insert("exhaustive_strings".into(), json!(strings));
    ev.extra.insert("exhaustive_max_len".into(), json!(max));
    ev.exhaustive = Some(violation.is_none());

    if violation.is_none() {
        let cases = tier.pick(150u32, 1500u32);
        let mut r = runner(sub_seed(seed, "C13"), cases);
        let alphabet: [&str; 13] = ["a", "\n", "\r\n", "é", "中", "\r", "bc", "\n\n", "\u{bf}", "\u{7ff}", "\u{ffff}", "\u{10ffff}", "\u{80}"];
        let strat = prop::collection::vec(any::<u8>(), 0..40);
        let cell = std::cell::RefCell::new(&mut ev);
        let res = r.run(&strat, |tape| {
            let s = text_from_tape(&tape, &alphabet);
            let mut ev = cell.borrow_mut();
            let mut cx = Ctx { ev: &mut ev, get_forms: false };
            if let Some(v) = check_string(&s, &mut cx) {
                ev.frozen = true;
                return Err(TestCaseError::fail(v.to_string()));
            }
            ev.count("random_texts");
            Ok(())
        });
        ev.frozen = false;
        if let Err(proptest::test_runner::TestError::Fail(reason, _)) = res {
            violation = serde_json::from_str(&reason.message().to_string()).ok();
        }
    }
    if let Some(v) = violation {
        ev.violations = 1;
        ev.violation_sample(&v);
        ev.write();
        report_violation("C13", &v);
        return 1;
    }
    ev.write();
    println!("C13 ok: {} evaluations, {} distinct non-trivial", ev.evaluations, ev.distinct_nontrivial());
    0
}

pub fn replay(v: &Value, path: &str) -> i32 {
    let s = v["string"].as_str().unwrap_or("");
    let mut ev = Evidence::new("C13", Tier::Quick, 0, "replay");
    let mut cx = Ctx { ev: &mut ev, get_forms: true };
    if check_string(s, &mut cx).is_some() {
        println!("VIOLATION property=C13 replay={}", path);
        1
    } else {
        println!("replay passes");
        0
    }
}

/// libFuzzer entry: bytes -> text (bounded: the check is cubic in the length).
pub fn fuzz_one(data: &[u8]) {
    let s = String::from_utf8_lossy(&data[..data.len().min(14)]).into_owned();
    let mut ev = Evidence::new("C13", Tier::Thorough, 0, "fuzz");
    let mut cx = Ctx { ev: &mut ev, get_forms: true };
    if let Some(v) = check_string(&s, &mut cx) {
        panic!("VIOLATION-DOC {}", v);
    }
}
