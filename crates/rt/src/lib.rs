//! Run-time-only checks as a library (the binary and the fuzz targets share them).
pub mod c12;
pub mod c13;
pub mod c14;
pub mod c19;
pub mod util;
