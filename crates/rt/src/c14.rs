//! C14 — displaying any Span or Position never panics and marks the right text.
//!
//! The rendered snippet is parsed back (a recording FormatOption tags span text, markers and
//! numbers) and compared with a model computed from the statement of the property.

use crate::util::{boundaries, catch, for_all_strings, runner, text_from_tape};
use pest_typed::{Position, Span};
use proptest::prelude::*;
use serde_json::{json, Value};
use std::fmt::Write;
use unicode_width::UnicodeWidthStr;
use verif_core::common::{fnv, load_findings, print_known, report_violation, show, sub_seed, Args, Evidence, Tier};

const ALPHABET: [char; 6] = ['\n', '\r', '\t', 'a', '中', 'é'];

// private-use delimiters: <open><kind>text<close>
const OPEN: char = '\u{E000}';
const CLOSE: char = '\u{E001}';

fn picture(c: char) -> char {
    match c as u32 {
        x @ 0..=0x1f => char::from_u32(0x2400 + x).unwrap(),
        0x7f => '\u{2421}',
        _ => c,
    }
}
fn pictures(s: &str) -> String {
    s.chars().map(picture).collect()
}
fn width(s: &str) -> usize {
    UnicodeWidthStr::width_cjk(s)
}

/// Lines of the input: each ends after its LF (the last one possibly without).
fn input_lines(s: &str) -> Vec<(usize, usize)> {
    let mut v = vec![];
    let mut start = 0;
    for (i, b) in s.bytes().enumerate() {
        if b == b'\n' {
            v.push((start, i + 1));
            start = i + 1;
        }
    }
    if start < s.len() {
        v.push((start, s.len()));
    }
    v
}

#[derive(Debug, Clone, PartialEq)]
enum Seg {
    Plain(String),
    Num(String),
    SpanText(String),
    Marker(String),
}

fn segments(line: &str) -> Result<Vec<Seg>, String> {
    let mut out = vec![];
    let mut plain = String::new();
    let mut chars = line.chars();
    while let Some(c) = chars.next() {
        if c == OPEN {
            if !plain.is_empty() {
                out.push(Seg::Plain(std::mem::take(&mut plain)));
            }
            let kind = chars.next().ok_or("dangling tag")?;
            let mut body = String::new();
            loop {
                match chars.next() {
                    Some(CLOSE) => break,
                    Some(c) => body.push(c),
                    None => return Err("unterminated tag".into()),
                }
            }
            out.push(match kind {
                'N' => Seg::Num(body),
                'S' => Seg::SpanText(body),
                'M' => Seg::Marker(body),
                _ => return Err("unknown tag".into()),
            });
        } else {
            plain.push(c);
        }
    }
    if !plain.is_empty() {
        out.push(Seg::Plain(plain));
    }
    Ok(out)
}

#[derive(Debug, Clone)]
struct NumLine {
    /// display width of everything up to and including the bar and its separating space
    gutter_w: usize,
    number: usize,
    text: String,
    /// text of the S-tagged parts, and the width of the text before the first of them
    span_text: String,
    before_span_w: usize,
}
#[derive(Debug, Clone)]
struct MarkLine {
    gutter_w: usize,
    col: usize,
    marker: String,
    /// index into numbered lines: how many numbered lines came before this marker line
    after: usize,
}
#[derive(Debug, Clone, Default)]
struct Parsed {
    lines: Vec<NumLine>,
    marks: Vec<MarkLine>,
    elided_after: Vec<usize>,
}

/// Parse the tagged rendering.
fn parse_output(out: &str) -> Result<Parsed, String> {
    let mut p = Parsed::default();
    for raw in out.split('\n') {
        if raw.is_empty() {
            continue;
        }
        let segs = segments(raw)?;
        // find the gutter bar
        let bar = segs.iter().position(|s| matches!(s, Seg::Num(n) if n == "|")).ok_or_else(|| format!("no gutter in {:?}", raw))?;
        let number: Option<usize> = segs[..bar].iter().find_map(|s| match s {
            Seg::Num(n) => n.trim().parse::<usize>().ok(),
            _ => None,
        });
        let gutter_w: usize = segs[..=bar].iter().map(|s| match s {
            Seg::Plain(t) | Seg::Num(t) | Seg::SpanText(t) | Seg::Marker(t) => width(t),
        }).sum::<usize>() + 1;
        // content after the bar; it begins with exactly one separating space unless empty
        let mut rest: Vec<Seg> = segs[bar + 1..].to_vec();
        if let Some(Seg::Plain(t)) = rest.first_mut() {
            if let Some(stripped) = t.strip_prefix(' ') {
                *t = stripped.to_string();
            } else {
                return Err(format!("no space after gutter in {:?}", raw));
            }
        } else if !rest.is_empty() {
            return Err(format!("no space after gutter in {:?}", raw));
        }
        if let Some(number) = number {
            let mut text = String::new();
            let mut span_text = String::new();
            let mut before: Option<usize> = None;
            for s in &rest {
                match s {
                    Seg::Plain(t) => text.push_str(t),
                    Seg::SpanText(t) => {
                        if before.is_none() {
                            before = Some(width(&text));
                        }
                        text.push_str(t);
                        span_text.push_str(t);
                    }
                    _ => return Err(format!("unexpected tag in numbered line {:?}", raw)),
                }
            }
            p.lines.push(NumLine { gutter_w, number, text, span_text, before_span_w: before.unwrap_or(0) });
        } else if rest.iter().any(|s| matches!(s, Seg::Marker(_))) {
            let mut col = 0;
            let mut marker = String::new();
            for s in &rest {
                match s {
                    Seg::Plain(t) => {
                        if !marker.is_empty() && !t.trim().is_empty() {
                            return Err("text after marker".into());
                        }
                        if marker.is_empty() {
                            if !t.chars().all(|c| c == ' ') {
                                return Err(format!("non-space before marker in {:?}", raw));
                            }
                            col += t.chars().count();
                        }
                    }
                    Seg::Marker(m) => marker.push_str(m),
                    _ => return Err("unexpected tag in marker line".into()),
                }
            }
            p.marks.push(MarkLine { gutter_w, col, marker, after: p.lines.len() });
        } else {
            let t: String = rest.iter().map(|s| if let Seg::Plain(t) = s { t.clone() } else { String::new() }).collect();
            if t.trim() == "..." {
                p.elided_after.push(p.lines.len());
            } else if !t.trim().is_empty() {
                return Err(format!("unrecognised line {:?}", raw));
            }
        }
    }
    Ok(p)
}

#[derive(Debug, Clone)]
pub enum What {
    Span(usize, usize),
    Pos(usize),
}

fn render(s: &str, w: &What, tagged: bool) -> Result<Option<String>, String> {
    catch(|| {
        let mut out = String::new();
        match (w, tagged) {
            (What::Span(a, b), false) => Span::new(s, *a, *b).map(|sp| {
                write!(out, "{}", sp).unwrap();
                out
            }),
            (What::Pos(o), false) => Position::new(s, *o).map(|p| {
                write!(out, "{}", p).unwrap();
                out
            }),
            (What::Span(a, b), true) => Span::new(s, *a, *b).map(|sp| {
                let mut opt = opt_of_span(Span::display::<String, F, F, F>);
                opt.span_formatter = tag_s;
                opt.marker_formatter = tag_m;
                opt.number_formatter = tag_n;
                sp.display(&mut out, opt).unwrap();
                out
            }),
            (What::Pos(o), true) => Position::new(s, *o).map(|p| {
                let mut opt = opt_of_pos(Position::display::<String, F, F, F>);
                opt.span_formatter = tag_s;
                opt.marker_formatter = tag_m;
                opt.number_formatter = tag_n;
                p.display(&mut out, opt).unwrap();
                out
            }),
        }
    })
}

type F = fn(&str, &mut String) -> std::fmt::Result;

// `FormatOption` lives in a private module of pest_typed and cannot be named from outside.
// A user reaches a custom one through `Default` plus its public fields; the option type is
// recovered here from the signature of `display` itself.
fn opt_of_span<'i, O: Default>(_f: for<'a, 'b> fn(&'a Span<'i>, &'b mut String, O) -> std::fmt::Result) -> O {
    O::default()
}
fn opt_of_pos<'i, O: Default>(_f: for<'a, 'b> fn(&'a Position<'i>, &'b mut String, O) -> std::fmt::Result) -> O {
    O::default()
}
fn tag_s(s: &str, f: &mut String) -> std::fmt::Result {
    write!(f, "{}S{}{}", OPEN, s, CLOSE)
}
fn tag_m(s: &str, f: &mut String) -> std::fmt::Result {
    write!(f, "{}M{}{}", OPEN, s, CLOSE)
}
fn tag_n(s: &str, f: &mut String) -> std::fmt::Result {
    write!(f, "{}N{}{}", OPEN, s, CLOSE)
}

fn strip_tags(s: &str) -> String {
    let mut o = String::new();
    let mut chars = s.chars();
    while let Some(c) = chars.next() {
        if c == OPEN {
            chars.next();
        } else if c != CLOSE {
            o.push(c);
        }
    }
    o
}

/// Shape classes of the formatter finding K4 (known_findings.json).
#[derive(Debug, Clone, Copy, PartialEq, Eq)]
pub enum K4Shape {
    EmptyInputSpan,
    SpanStartsAtLineStart,
    PositionAtEnd,
}

pub fn k4_shape(s: &str, w: &What) -> Option<K4Shape> {
    match w {
        What::Span(_, _) if s.is_empty() => Some(K4Shape::EmptyInputSpan),
        What::Span(a, _) if *a > 0 && *a < s.len() && s.as_bytes()[*a - 1] == b'\n' => Some(K4Shape::SpanStartsAtLineStart),
        What::Pos(o) if *o == s.len() => Some(K4Shape::PositionAtEnd),
        _ => None,
    }
}

/// The model.  Returns Err(reason) when the rendering contradicts the statement.
/// `k4b`: evaluate against the defect model of finding K4b instead of the statement (a span
/// that starts at the start of a line other than the first is attributed to the end of the
/// previous line).
fn check_case(s: &str, w: &What, k4b: bool) -> Result<(), String> {
    if s.contains(OPEN) || s.contains(CLOSE) {
        // the input holds the harness' own tag characters (possible under fuzzing only): the
        // rendering cannot be parsed back; only totality is checked
        for tagged in [true, false] {
            if let Err(m) = render(s, w, tagged) {
                return Err(format!("panic: {}", m));
            }
        }
        return Ok(());
    }
    let tagged = match render(s, w, true) {
        Err(m) => return Err(format!("panic (custom FormatOption): {}", m)),
        Ok(None) => return Ok(()), // not a valid span/position: nothing to display
        Ok(Some(t)) => t,
    };
    let plain = match render(s, w, false) {
        Err(m) => return Err(format!("panic (to_string): {}", m)),
        Ok(None) => return Err("valid for display() but not for to_string()".into()),
        Ok(Some(t)) => t,
    };
    if strip_tags(&tagged) != plain {
        return Err(format!("default and custom rendering differ: {:?} vs {:?}", plain, strip_tags(&tagged)));
    }
    let parsed = parse_output(&tagged).map_err(|e| format!("unparsable rendering ({}): {:?}", e, plain))?;
    let lines = input_lines(s);

    if s.is_empty() {
        // only: no panic, and if a line is shown it is line 1 and empty
        for l in &parsed.lines {
            if l.number != 1 || !l.text.is_empty() {
                return Err(format!("empty input shows line {} {:?}", l.number, l.text));
            }
        }
        return Ok(());
    }

    // every numbered line carries its number and the pictured text of that input line
    let mut prev = 0usize;
    for l in &parsed.lines {
        if l.number == 0 || l.number > lines.len() {
            // at end of input after a trailing LF the (empty) line len+1 is acceptable
            let trailing_ok = l.number == lines.len() + 1 && s.ends_with('\n') && l.text.is_empty();
            if !trailing_ok {
                return Err(format!("line number {} out of range 1..={}", l.number, lines.len()));
            }
        } else {
            let (a, b) = lines[l.number - 1];
            let want = pictures(&s[a..b]);
            if l.text != want {
                return Err(format!("line {} shown as {:?}, input line is {:?}", l.number, l.text, want));
            }
        }
        if l.number <= prev {
            return Err("numbered lines not increasing".into());
        }
        prev = l.number;
    }
    for &e in &parsed.elided_after {
        if e == 0 || e >= parsed.lines.len() || parsed.lines[e].number <= parsed.lines[e - 1].number + 1 {
            return Err("elision mark not between two non-adjacent numbered lines".into());
        }
    }
    for pair in parsed.lines.windows(2) {
        let gap = pair[1].number - pair[0].number;
        if gap != 1 {
            let idx = parsed.lines.iter().position(|l| l.number == pair[1].number).unwrap();
            if !parsed.elided_after.contains(&idx) {
                return Err(format!("lines {}..{} skipped without an elision mark", pair[0].number, pair[1].number));
            }
        }
    }
    if parsed.lines.is_empty() {
        return Err(format!("no numbered line shown: {:?}", plain));
    }
    // a marker points at a cell of a numbered line only if both lines have the same gutter
    for m in &parsed.marks {
        let target = if m.after == 0 { parsed.lines.first() } else { parsed.lines.get(m.after - 1) };
        if let Some(t) = target {
            if !m.marker.is_empty() && t.gutter_w != m.gutter_w {
                return Err(format!("the marker line's gutter is {} cells wide, that of line {} is {}: the marker does not stand under / over the cell it is meant for", m.gutter_w, t.number, t.gutter_w));
            }
        }
    }
    let line_of = |o: usize| -> usize {
        // 1-based index of the line holding offset o (o < len)
        lines.iter().position(|&(a, b)| a <= o && o < b).unwrap() + 1
    };
    let first = parsed.lines.first().unwrap();
    let last = parsed.lines.last().unwrap();
    let col_w = |line_no: usize, upto: usize| -> usize {
        let (a, _) = lines[line_no - 1];
        width(&pictures(&s[a..upto]))
    };
    match *w {
        What::Span(a, b) if a < b => {
            let fl = if k4b { line_of(a - 1) } else { line_of(a) };
            let ll = line_of(b - 1);
            if first.number != fl {
                return Err(format!("first shown line is {}, first character of the span is on line {}", first.number, fl));
            }
            if last.number != ll {
                return Err(format!("last shown line is {}, last character of the span is on line {}", last.number, ll));
            }
            // span text = pictured text of the span, in order over the shown lines
            if parsed.elided_after.is_empty() {
                let shown: String = parsed.lines.iter().map(|l| l.span_text.as_str()).collect();
                if shown != pictures(&s[a..b]) {
                    return Err(format!("highlighted text {:?} is not the span text {:?}", shown, pictures(&s[a..b])));
                }
            }
            if first.before_span_w != col_w(fl, a) {
                return Err("highlight does not begin at the first character of the span".into());
            }
            let start_col = col_w(fl, a);
            let last_char_start = s[..b].char_indices().last().unwrap().0;
            let end_lo = col_w(ll, last_char_start);
            let end_hi = col_w(ll, b);
            if fl == ll {
                // one marker run covering exactly the cells of the span
                if parsed.marks.len() != 1 {
                    return Err(format!("{} marker lines for a single-line span", parsed.marks.len()));
                }
                let m = &parsed.marks[0];
                if m.after != 1 {
                    return Err("marker line is not below the numbered line".into());
                }
                let mw = width(&m.marker);
                // cells of the span: from the width of the text before it, as wide as the span's
                // own text (display width is not additive over every character sequence -
                // variation selectors, joiners -, so the right edge is not taken from the prefix)
                let span_w = width(&pictures(&s[a..b]));
                let _ = end_hi;
                if m.col != start_col || mw != span_w {
                    return Err(format!("marker covers cells {}..{}, span occupies {}..{}", m.col, m.col + mw, start_col, start_col + span_w));
                }
            } else {
                if parsed.marks.len() != 2 {
                    return Err(format!("{} marker lines for a multi-line span", parsed.marks.len()));
                }
                let (top, bot) = (&parsed.marks[0], &parsed.marks[1]);
                if top.after != 0 || bot.after != parsed.lines.len() {
                    return Err("marker lines are not above the first / below the last line".into());
                }
                if top.col != start_col {
                    return Err(format!("start marker at cell {}, first character at cell {}", top.col, start_col));
                }
                // a zero-width last character (combining mark, format character) has no cell of
                // its own: the marker may then sit on the cell before it, where it is rendered
                let zero_width_last = end_lo == end_hi;
                // where display width is not additive around the last character, its cells are not
                // well defined: only the neighbourhood is required
                let (la, _) = lines[ll - 1];
                let last_char = &s[last_char_start..b];
                let additive = width(&pictures(&s[la..last_char_start])) + width(&pictures(last_char)) == width(&pictures(&s[la..b]));
                let ok = (end_lo <= bot.col && bot.col < end_hi.max(end_lo + 1)) || (zero_width_last && bot.col + 1 == end_lo) || (!additive && bot.col + 2 >= end_lo && bot.col <= end_hi + 1);
                if !ok {
                    return Err(format!("end marker at cell {}, last character occupies {}..{}", bot.col, end_lo, end_hi));
                }
            }
        }
        What::Span(o, _) | What::Pos(o) => {
            // empty span or position: exactly the line holding the offset; at end of input
            // the last line (or the empty line after a trailing LF)
            if parsed.lines.len() != 1 {
                return Err(format!("{} lines shown for an empty span / position", parsed.lines.len()));
            }
            let (want_no, want_col): (Vec<usize>, Vec<usize>) = if k4b {
                (vec![line_of(o - 1)], vec![col_w(line_of(o - 1), o)])
            } else if o < s.len() {
                (vec![line_of(o)], vec![col_w(line_of(o), o)])
            } else if s.ends_with('\n') {
                (vec![lines.len(), lines.len() + 1], vec![col_w(lines.len(), s.len()), 0])
            } else {
                (vec![lines.len()], vec![col_w(lines.len(), s.len())])
            };
            let k = match want_no.iter().position(|&n| n == first.number) {
                Some(k) => k,
                None => return Err(format!("shown line is {}, offset {} is on line {:?}", first.number, o, want_no)),
            };
            let is_pos = matches!(w, What::Pos(_));
            if parsed.marks.len() != 1 {
                return Err(format!("{} marker lines", parsed.marks.len()));
            }
            let m = &parsed.marks[0];
            let mw = width(&m.marker);
            if is_pos {
                if mw != 1 || m.col != want_col[k] {
                    return Err(format!("position marker at cell {} (width {}), offset is at cell {}", m.col, mw, want_col[k]));
                }
            } else if mw > 1 || m.col != want_col[k] {
                return Err(format!("empty-span marker at cell {} (width {}), offset is at cell {}", m.col, mw, want_col[k]));
            }
        }
    }
    Ok(())
}

fn nontrivial(s: &str, w: &What) -> Option<&'static str> {
    let lines = input_lines(s);
    match *w {
        What::Span(a, b) => {
            if a < b && s.as_bytes()[a..b - 1].contains(&b'\n') {
                Some("multi_line_span")
            } else if b == s.len() {
                Some("touches_end_of_input")
            } else if a == 0 || s.as_bytes()[a - 1] == b'\n' {
                Some("starts_at_line_start")
            } else {
                let (la, _) = lines.iter().find(|&&(x, y)| x <= a && a < y).copied().unwrap_or((0, 0));
                if s[la..a].chars().any(|c| c == '\t' || c == '\r' || !c.is_ascii()) {
                    Some("wide_or_control_before_marker")
                } else {
                    None
                }
            }
        }
        What::Pos(o) => {
            if o == s.len() {
                Some("position_at_end")
            } else if o == 0 || s.as_bytes()[o - 1] == b'\n' {
                Some("position_at_line_start")
            } else {
                let (la, _) = lines.iter().find(|&&(x, y)| x <= o && o < y).copied().unwrap_or((0, 0));
                if s[la..o].chars().any(|c| c == '\t' || c == '\r' || !c.is_ascii()) {
                    Some("wide_or_control_before_marker")
                } else {
                    None
                }
            }
        }
    }
}

struct State {
    /// open findings by shape: [K4a empty input, K4b line start, K4c position at end]
    open: [bool; 3],
}

/// One case; returns a violation document if it fails and is not a listed finding.
fn run_case(s: &str, w: &What, ev: &mut Evidence, st: &mut State) -> Option<Value> {
    ev.eval();
    if let Some(class) = nontrivial(s, w) {
        ev.nontrivial(fnv(format!("{}\u{0}{:?}", s, w).as_bytes()));
        ev.count(&format!("class.{}", class));
        if ev.counter(&format!("samples_of.{}", class)) < 3 {
            let out = render(s, w, false).ok().flatten().unwrap_or_default();
            ev.sample(class, json!({"input": show(s), "what": format!("{:?}", w), "rendered": out}));
        }
    }
    match check_case(s, w, false) {
        Ok(()) => None,
        Err(why) => {
            if let Some(shape) = k4_shape(s, w) {
                // a listed finding explains the failure only if the observed rendering is
                // exactly what the finding's defect model predicts (K4b), resp. the case has
                // the finding's exact shape (K4a, K4c: nothing is rendered at all)
                let explained = st.open[shape as usize]
                    && match shape {
                        K4Shape::SpanStartsAtLineStart => check_case(s, w, true).is_ok(),
                        K4Shape::EmptyInputSpan => why.starts_with("panic"),
                        K4Shape::PositionAtEnd => why.starts_with("no numbered line shown"),
                    };
                if explained {
                    let id = ["K4a", "K4b", "K4c"][shape as usize];
                    ev.known_finding(id);
                    ev.count(&format!("excluded.{}", id));
                    return None;
                }
            }
            Some(json!({"property":"C14","input":s,"what": match w { What::Span(a,b) => json!({"span":[a,b]}), What::Pos(o) => json!({"pos":o}) },"why":why}))
        }
    }
}

fn all_cases(s: &str) -> Vec<What> {
    let b = boundaries(s);
    let mut v = vec![];
    for (i, &a) in b.iter().enumerate() {
        v.push(What::Pos(a));
        for &e in &b[i..] {
            v.push(What::Span(a, e));
        }
    }
    v
}

pub fn run(args: &Args) -> i32 {
    let tier = args.tier();
    let seed = args.seed();
    let mut ev = Evidence::new(
        "C14",
        tier,
        seed,
        "exhaustive: every string up to the length bound over {LF,CR,TAB,a,wide CJK,e-acute} incl. the empty string x every span and position on character boundaries, each rendered with to_string() and with a recording FormatOption; random: texts of up to 130 lines (gutter widths 1-3, elision) x random spans/positions. Non-trivial = multi-line span, or span/position touching a line start or the end of input, or a wide/control character before the marker; distinct by (string, span/position).",
    );
    ev.assumptions.push("display cells are those of unicode-width 0.1.14 width_cjk, as used by the crate".into());
    let findings = load_findings();
    let is_open = |id: &str| findings.iter().any(|f| f.id == id && f.open());
    let mut st = State { open: [is_open("K4a"), is_open("K4b"), is_open("K4c")] };
    let max = tier.pick(5, 6);
    let mut violation = None;
    let mut strings = 0u64;
    for_all_strings(&ALPHABET, max, |s| {
        strings += 1;
        for w in all_cases(s) {
            if let Some(v) = run_case(s, &w, &mut ev, &mut st) {
                violation = Some(v);
                return false;
            }
        }
        true
    });
    ev.extra.insert("exhaustive_strings".into(), json!(strings));
    ev.extra.insert("exhaustive_max_len".into(), json!(max));
    ev.exhaustive = Some(violation.is_none());

    if violation.is_none() {
        let cases = tier.pick(4000u32, 60000u32);
        let mut r = runner(sub_seed(seed, "C14"), cases);
        let alphabet: [&str; 16] = ["a", "\n", "b\n", "中", "é", "\t", "\r\n", "xy", "\n\n", " ", "\r", "\u{7f}", "\u{bf}", "\u{ffff}", "\u{10ffff}", "\u{1f}"];
        let strat = (prop::collection::vec(any::<u8>(), 0..260), any::<u16>(), any::<u16>(), any::<bool>(), 0usize..3);
        let cell = std::cell::RefCell::new((&mut ev, &mut st));
        let res = r.run(&strat, |(tape, i, j, is_pos, pad)| {
            // pad: prepend 0, 12 or 120 lines so that 2- and 3-digit line numbers occur
            let mut s = "q\n".repeat([0usize, 12, 120][pad]);
            s.push_str(&text_from_tape(&tape, &alphabet));
            let b = boundaries(&s);
            let x = b[(i as usize * b.len()) >> 16];
            let y = b[(j as usize * b.len()) >> 16];
            let w = if is_pos { What::Pos(x) } else { What::Span(x.min(y), x.max(y)) };
            let mut g = cell.borrow_mut();
            let (ev, st) = &mut *g;
            if let Some(v) = run_case(&s, &w, ev, st) {
                ev.frozen = true;
                return Err(TestCaseError::fail(v.to_string()));
            }
            ev.count("random_texts");
            if let What::Span(a, e) = w {
                let n = s[a..e].matches('\n').count();
                if n >= 5 {
                    ev.count("random_spans_over_more_than_five_lines");
                }
            }
            Ok(())
        });
        ev.frozen = false;
        if let Err(proptest::test_runner::TestError::Fail(reason, _)) = res {
            violation = serde_json::from_str(&reason.message().to_string()).ok();
        }
    }
    // gutter widths: positions and spans on and around lines 10, 100 and 1000
    if violation.is_none() {
        let text: String = (0..1003).map(|i| format!("l{}\n", i % 7)).collect();
        let starts: Vec<usize> = std::iter::once(0).chain(text.match_indices('\n').map(|(i, _)| i + 1)).collect();
        for line in [8usize, 9, 10, 98, 99, 100, 998, 999, 1000] {
            let a = starts[line] + 1; // second character of the 0-based line
            for w in [What::Pos(a), What::Span(a, a + 1), What::Span(a, starts[line + 1] + 1), What::Span(starts[line - 1] + 1, a + 1)] {
                if let Some(v) = run_case(&text, &w, &mut ev, &mut st) {
                    violation = Some(v);
                    break;
                }
                ev.count("gutter_width_cases");
            }
            if violation.is_some() {
                break;
            }
        }
    }
    // deterministic KNOWN-FINDING lines: the stored reproducers are executed themselves
    for f in findings.iter().filter(|f| f.open() && f.properties.iter().any(|p| p == "C14")) {
        for rep in f.raw["reproducers"].as_array().cloned().unwrap_or_default() {
            let s = rep["input"].as_str().unwrap_or("");
            let w = if let Some(sp) = rep["span"].as_array() {
                What::Span(sp[0].as_u64().unwrap() as usize, sp[1].as_u64().unwrap() as usize)
            } else {
                What::Pos(rep["pos"].as_u64().unwrap_or(0) as usize)
            };
            if check_case(s, &w, false).is_err() {
                print_known("C14", &f.id, rep["what"].as_str().unwrap_or(""));
            }
        }
    }
    if let Some(v) = violation {
        ev.violations = 1;
        ev.violation_sample(&v);
        ev.write();
        report_violation("C14", &v);
        return 1;
    }
    ev.write();
    println!("C14 ok: {} evaluations, {} distinct non-trivial", ev.evaluations, ev.distinct_nontrivial());
    0
}

pub fn replay(v: &Value, path: &str) -> i32 {
    let s = v["input"].as_str().unwrap_or("");
    let w = if let Some(sp) = v["what"]["span"].as_array() {
        What::Span(sp[0].as_u64().unwrap() as usize, sp[1].as_u64().unwrap() as usize)
    } else {
        What::Pos(v["what"]["pos"].as_u64().unwrap_or(0) as usize)
    };
    match check_case(s, &w, false) {
        Err(why) => {
            println!("still failing: {}", why);
            println!("VIOLATION property=C14 replay={}", path);
            1
        }
        Ok(()) => {
            println!("replay passes");
            0
        }
    }
}

/// libFuzzer entry: bytes -> (text, span or position).
pub fn fuzz_one(data: &[u8]) {
    if data.len() < 3 {
        return;
    }
    let s = String::from_utf8_lossy(&data[3..]).into_owned();
    let b = boundaries(&s);
    let x = b[(data[0] as usize * b.len()) >> 8];
    let y = b[(data[1] as usize * b.len()) >> 8];
    let w = if data[2] & 1 == 1 { What::Pos(x) } else { What::Span(x.min(y), x.max(y)) };
    let findings = load_findings();
    let is_open = |id: &str| findings.iter().any(|f| f.id == id && f.open());
    let mut st = State { open: [is_open("K4a"), is_open("K4b"), is_open("K4c")] };
    let mut ev = Evidence::new("C14", Tier::Thorough, 0, "fuzz");
    if let Some(v) = run_case(&s, &w, &mut ev, &mut st) {
        panic!("VIOLATION-DOC {}", v);
    }
}
