//! Seeded generators of pest grammars (DESIGN.md section 4.1).
//!
//! Sound first: every candidate is printed and offered to pest_meta; only accepted grammars
//! enter a corpus.  By construction most candidates are valid: repetition bodies and non-last
//! alternatives are consuming and can fail, recursion is guarded by a consumed prefix.

use crate::common::Rng;
use crate::ir::{analyse, print_grammar, Expr, Grammar, Kind, PestVerdict, Rule};

#[derive(Clone, Debug)]
pub struct Profile {
    pub rules: (usize, usize),
    pub depth: usize,
    pub stack_ops: usize,   // weight (0 = none)
    pub predicates: usize,  // weight
    pub counted: usize,     // weight of {n} forms
    pub unicode: bool,
    pub kinds: bool,        // use all rule kinds (else mostly normal)
    pub ws: Option<bool>,   // force WHITESPACE presence
    pub comment: Option<bool>,
    pub shadow: bool,
    pub skip_rule_kinds_k1: bool, // allow `!` / non-trivial skip rules (finding K1 sub-family)
}

impl Profile {
    pub fn general() -> Self {
        Profile { rules: (3, 7), depth: 3, stack_ops: 0, predicates: 2, counted: 2, unicode: true, kinds: true, ws: None, comment: None, shadow: true, skip_rule_kinds_k1: false }
    }
    /// mutually recursive grammars for the option variants (no counted repetition: finding K5)
    pub fn recursive() -> Self {
        Profile { rules: (3, 6), depth: 3, stack_ops: 1, predicates: 1, counted: 0, unicode: false, kinds: true, ws: None, comment: None, shadow: false, skip_rule_kinds_k1: false }
    }
    /// many rule references under options, choices, repetitions, predicates and PUSH (C16)
    pub fn getter() -> Self {
        Profile { rules: (4, 7), depth: 3, stack_ops: 1, predicates: 3, counted: 1, unicode: true, kinds: true, ws: None, comment: Some(false), shadow: false, skip_rule_kinds_k1: false }
    }
    pub fn stack() -> Self {
        Profile { rules: (3, 6), depth: 3, stack_ops: 6, predicates: 3, counted: 1, unicode: false, kinds: true, ws: None, comment: None, shadow: false, skip_rule_kinds_k1: false }
    }
}

/// What the generator knows about an expression (conservative).
#[derive(Clone, Copy, Debug)]
struct Attr {
    nullable: bool,
    can_fail: bool,
}

const STRS: [&str; 14] = ["a", "b", "ab", "c", "x", "ba", "abc", "é", "中", "😀", "xy", "-", "(", ")"];
const INSENS: [&str; 5] = ["ab", "Xy", "c", "éa", "B"];
const RANGES: [(char, char); 9] = [('a', 'c'), ('0', '9'), ('α', 'ω'), ('a', 'z'), ('b', 'b'), ('一', '龥'), ('z', 'a'), ('a', 'é'), ('!', '龥')];
const CHAR_BUILTINS: [&str; 8] = ["ANY", "ASCII_DIGIT", "ASCII_ALPHA", "ASCII_ALPHANUMERIC", "ASCII_HEX_DIGIT", "NEWLINE", "ASCII_ALPHA_UPPER", "ASCII"];
pub const UNICODE_SAMPLE: [&str; 10] = ["LETTER", "NUMBER", "UPPERCASE_LETTER", "LOWERCASE_LETTER", "HAN", "EMOJI", "PUNCTUATION", "ALPHABETIC", "GREEK", "WHITE_SPACE"];

struct Gen<'a> {
    rng: &'a mut Rng,
    p: &'a Profile,
    names: Vec<String>,
    /// attributes of rules already defined (index-aligned with names); None = being defined
    attrs: Vec<Option<Attr>>,
    /// rules that are guaranteed consuming by construction (may be referenced before defined)
    guarded: Vec<bool>,
    cur: usize,
    /// references to all rules allowed (we are behind a consumed prefix)
    free_refs: bool,
}

fn seq(items: Vec<Expr>) -> Expr {
    let mut it = items.into_iter().rev();
    let mut acc = it.next().unwrap();
    for e in it {
        acc = Expr::Seq(Box::new(e), Box::new(acc));
    }
    acc
}
fn choice(items: Vec<Expr>) -> Expr {
    let mut it = items.into_iter().rev();
    let mut acc = it.next().unwrap();
    for e in it {
        acc = Expr::Choice(Box::new(e), Box::new(acc));
    }
    acc
}

impl<'a> Gen<'a> {
    fn terminal(&mut self) -> (Expr, Attr) {
        let a = Attr { nullable: false, can_fail: true };
        let k = self.rng.below(if self.p.unicode { 12 } else { 10 });
        let e = match k {
            0..=4 => Expr::Str(self.rng.pick(&STRS).to_string()),
            5 => Expr::Insens(self.rng.pick(&INSENS).to_string()),
            6 | 7 => {
                let (x, y) = *self.rng.pick(&RANGES);
                Expr::Range(x, y)
            }
            8 | 9 => Expr::Ident(self.rng.pick(&CHAR_BUILTINS).to_string()),
            _ => Expr::Ident(self.rng.pick(&UNICODE_SAMPLE).to_string()),
        };
        (e, a)
    }

    /// A reference to a user rule that is allowed here.
    fn rule_ref(&mut self) -> Option<(Expr, Attr)> {
        let mut cands: Vec<usize> = vec![];
        for i in 0..self.names.len() {
            if self.names[i] == "WHITESPACE" || self.names[i] == "COMMENT" {
                continue;
            }
            if let Some(_) = self.attrs[i] {
                if i != self.cur {
                    cands.push(i);
                }
            } else if self.free_refs && self.guarded[i] {
                cands.push(i);
            }
        }
        if cands.is_empty() {
            return None;
        }
        let i = *self.rng.pick(&cands);
        let a = self.attrs[i].unwrap_or(Attr { nullable: false, can_fail: true });
        Some((Expr::Ident(self.names[i].clone()), a))
    }

    fn stack_op(&mut self, depth: usize) -> (Expr, Attr) {
        let nf = Attr { nullable: true, can_fail: true };
        match self.rng.below(12) {
            0..=3 => {
                let (e, a) = self.consuming(depth.saturating_sub(1));
                (Expr::Push(Box::new(e)), a)
            }
            4 | 5 => (Expr::Ident("PEEK".into()), nf),
            6 | 7 => (Expr::Ident("POP".into()), nf),
            8 => (Expr::Ident("DROP".into()), nf),
            9 => (Expr::Ident("PEEK_ALL".into()), nf),
            10 => (Expr::Ident("POP_ALL".into()), nf),
            _ => {
                let a = self.rng.below(5) as i32 - 2;
                let b = if self.rng.chance(1, 3) { None } else { Some(self.rng.below(5) as i32 - 2) };
                (Expr::PeekSlice(a, b), nf)
            }
        }
    }

    /// Any expression.
    fn expr(&mut self, depth: usize) -> (Expr, Attr) {
        if depth == 0 {
            return self.leaf();
        }
        let w_stack = self.p.stack_ops;
        let w_pred = self.p.predicates;
        let w_cnt = self.p.counted;
        let total = 4 + 5 + 4 + 3 + 3 + 2 + w_pred + w_cnt + w_stack;
        let mut k = self.rng.below(total);
        macro_rules! take {
            ($w:expr) => {{
                if k < $w {
                    true
                } else {
                    k -= $w;
                    false
                }
            }};
        }
        if take!(4) {
            return self.leaf();
        }
        if take!(5) {
            // sequence
            let n = self.rng.range(2, 4);
            let mut items = vec![];
            let mut attr = Attr { nullable: true, can_fail: false };
            for _ in 0..n {
                let (e, a) = self.expr(depth - 1);
                attr.nullable &= a.nullable;
                attr.can_fail |= a.can_fail;
                items.push(e);
                if !attr.nullable {
                    // behind a consumed element every rule may be referenced
                }
            }
            return (seq(items), attr);
        }
        if take!(4) {
            // choice: non-last alternatives must be able to fail
            let n = self.rng.range(2, 4);
            let mut items = vec![];
            let mut attr = Attr { nullable: false, can_fail: true };
            for i in 0..n {
                let (e, a) = if i + 1 < n { self.failing(depth - 1) } else { self.expr(depth - 1) };
                attr.nullable |= a.nullable;
                attr.can_fail &= a.can_fail;
                items.push(e);
            }
            return (choice(items), attr);
        }
        if take!(3) {
            let (e, _) = self.expr(depth - 1);
            return (Expr::Opt(Box::new(e)), Attr { nullable: true, can_fail: false });
        }
        if take!(3) {
            let (e, _) = self.consuming(depth - 1);
            return (Expr::Rep(Box::new(e)), Attr { nullable: true, can_fail: false });
        }
        if take!(2) {
            let (e, _) = self.consuming(depth - 1);
            return (Expr::RepOnce(Box::new(e)), Attr { nullable: false, can_fail: true });
        }
        if take!(w_pred) {
            let (e, _) = self.expr(depth - 1);
            let a = Attr { nullable: true, can_fail: true };
            return if self.rng.chance(1, 2) { (Expr::PosPred(Box::new(e)), a) } else { (Expr::NegPred(Box::new(e)), a) };
        }
        if take!(w_cnt) {
            let (e, _) = self.consuming(depth - 1);
            let b = Box::new(e);
            let n = self.rng.range(1, 3) as u32;
            let m = n + self.rng.below(3) as u32;
            return match self.rng.below(4) {
                0 => (Expr::RepExact(b, n), Attr { nullable: false, can_fail: true }),
                1 => (Expr::RepMin(b, n), Attr { nullable: false, can_fail: true }),
                2 => (Expr::RepMax(b, m), Attr { nullable: true, can_fail: false }),
                _ => (Expr::RepMinMax(b, n, m), Attr { nullable: false, can_fail: true }),
            };
        }
        self.stack_op(depth)
    }

    fn leaf(&mut self) -> (Expr, Attr) {
        match self.rng.below(20) {
            0 => (Expr::Ident("SOI".into()), Attr { nullable: true, can_fail: true }),
            1 => (Expr::Ident("EOI".into()), Attr { nullable: true, can_fail: true }),
            2 => (Expr::Str(String::new()), Attr { nullable: true, can_fail: false }),
            3..=8 => match self.rule_ref() {
                Some(r) => r,
                None => self.terminal(),
            },
            9 if self.p.stack_ops > 0 => self.stack_op(1),
            _ => self.terminal(),
        }
    }

    /// An expression that consumes input when it matches and can fail.
    fn consuming(&mut self, depth: usize) -> (Expr, Attr) {
        for _ in 0..4 {
            let (e, a) = self.expr(depth);
            if !a.nullable && a.can_fail {
                return (e, a);
            }
        }
        // construct: consuming terminal followed by anything
        let (t, _) = self.terminal();
        if depth > 0 && self.rng.chance(1, 2) {
            let saved = self.free_refs;
            self.free_refs = true;
            let (e, _) = self.expr(depth - 1);
            self.free_refs = saved;
            (seq(vec![t, e]), Attr { nullable: false, can_fail: true })
        } else {
            (t, Attr { nullable: false, can_fail: true })
        }
    }

    /// An expression that can fail.
    fn failing(&mut self, depth: usize) -> (Expr, Attr) {
        for _ in 0..4 {
            let (e, a) = self.expr(depth);
            if a.can_fail {
                return (e, a);
            }
        }
        self.consuming(depth)
    }
}

fn skip_rules(rng: &mut Rng, p: &Profile, rules: &mut Vec<Rule>) {
    let ws = p.ws.unwrap_or_else(|| rng.chance(3, 5));
    let cm = p.comment.unwrap_or_else(|| rng.chance(2, 5));
    if ws {
        let kind = *rng.pick(&[Kind::Silent, Kind::Silent, Kind::Normal, Kind::Atomic, Kind::Compound]);
        let expr = match rng.below(7) {
            0 => Expr::Str(" ".into()),
            1 => choice(vec![Expr::Str(" ".into()), Expr::Str("\t".into())]),
            2 => choice(vec![Expr::Str(" ".into()), Expr::Ident("NEWLINE".into())]),
            3 => Expr::RepOnce(Box::new(Expr::Str(" ".into()))),
            // skip rules with an inner sequence / optional: only atomic matching gets them right
            4 => choice(vec![Expr::Str(" ".into()), seq(vec![Expr::Str("\\".into()), Expr::Ident("NEWLINE".into())])]),
            5 => seq(vec![Expr::Str(" ".into()), Expr::Opt(Box::new(Expr::Str("\t".into())))]),
            _ => choice(vec![Expr::Str(" ".into()), seq(vec![Expr::Str("/*".into()), Expr::Rep(Box::new(seq(vec![Expr::NegPred(Box::new(Expr::Str("*/".into()))), Expr::Ident("ANY".into())]))), Expr::Str("*/".into())])]),
        };
        rules.push(Rule { name: "WHITESPACE".into(), kind, expr });
    }
    if cm {
        let kind = *rng.pick(&[Kind::Silent, Kind::Normal, Kind::Atomic, Kind::Compound]);
        let body = |open: &str, close: &str| {
            seq(vec![
                Expr::Str(open.into()),
                Expr::Rep(Box::new(seq(vec![Expr::NegPred(Box::new(Expr::Str(close.into()))), Expr::Ident("ANY".into())]))),
                Expr::Str(close.into()),
            ])
        };
        let expr = match rng.below(if p.stack_ops > 0 { 5 } else { 3 }) {
            0 => body("#", "#"),
            1 => body("/*", "*/"),
            2 => seq(vec![Expr::Str("//".into()), Expr::Rep(Box::new(Expr::Range('a', 'z')))]),
            // skip rules that use the stack and can fail after changing it
            3 => seq(vec![Expr::Str("<".into()), Expr::Push(Box::new(Expr::RepOnce(Box::new(Expr::Str("!".into()))))), Expr::Str("-".into()), Expr::Ident("POP".into()), Expr::Str(">".into())]),
            _ => seq(vec![Expr::Str("<".into()), Expr::Push(Box::new(Expr::Range('a', 'b'))), Expr::Opt(Box::new(Expr::Ident("PEEK".into()))), Expr::Str(">".into()), Expr::Ident("DROP".into())]),
        };
        rules.push(Rule { name: "COMMENT".into(), kind, expr });
    }
}

/// One candidate grammar (not yet validated).
pub fn candidate(rng: &mut Rng, p: &Profile) -> Vec<Rule> {
    let n = rng.range(p.rules.0, p.rules.1);
    let mut names: Vec<String> = (0..n).map(|i| format!("r{}", i)).collect();
    if p.shadow && rng.chance(1, 6) {
        // a user rule that shadows a built-in of the same name
        let i = rng.below(n);
        names[i] = rng.pick(&["ANY", "ASCII_DIGIT", "NEWLINE", "LETTER"]).to_string();
    }
    let guarded: Vec<bool> = (0..n).map(|_| rng.chance(1, 2)).collect();
    let mut rules: Vec<Rule> = vec![];
    let mut attrs: Vec<Option<Attr>> = vec![None; n];
    for i in 0..n {
        let kind = if p.kinds {
            *rng.pick(&[Kind::Normal, Kind::Normal, Kind::Normal, Kind::Silent, Kind::Atomic, Kind::Compound, Kind::NonAtomic])
        } else {
            *rng.pick(&[Kind::Normal, Kind::Normal, Kind::Silent])
        };
        let mut g = Gen { rng, p, names: names.clone(), attrs: attrs.clone(), guarded: guarded.clone(), cur: i, free_refs: false };
        let depth = g.rng.range(1, p.depth);
        let (expr, a) = if guarded[i] {
            // consumed prefix, then anything (all rules may be referenced)
            let (t, _) = g.terminal();
            g.free_refs = true;
            let (rest, _) = g.expr(depth);
            if g.rng.chance(1, 4) {
                let (t2, _) = g.terminal();
                let (rest2, _) = g.expr(depth.saturating_sub(1));
                (choice(vec![seq(vec![t, rest]), seq(vec![t2, rest2])]), Attr { nullable: false, can_fail: true })
            } else {
                (seq(vec![t, rest]), Attr { nullable: false, can_fail: true })
            }
        } else {
            g.expr(depth)
        };
        attrs[i] = Some(a);
        rules.push(Rule { name: names[i].clone(), kind, expr });
    }
    skip_rules(rng, p, &mut rules);
    rules
}

#[derive(Debug, Default, Clone)]
pub struct GenStats {
    pub candidates: u64,
    pub rejected_by_pest: u64,
    pub name_errors: u64,
}

/// Draw candidates until pest accepts one.  Rejected candidates are returned too (they are
/// C11's "pest rejects" cases).
pub fn valid_grammar(rng: &mut Rng, p: &Profile, stats: &mut GenStats, rejected: &mut Vec<String>) -> Grammar {
    loop {
        stats.candidates += 1;
        let rules = candidate(rng, p);
        let text = print_grammar(&rules);
        match analyse(&text) {
            PestVerdict::Accepted(g) => return *g,
            PestVerdict::Rejected(_) => {
                stats.rejected_by_pest += 1;
                if rejected.len() < 64 {
                    rejected.push(text);
                }
            }
            PestVerdict::NameError(e) | PestVerdict::SyntaxError(e) => {
                stats.name_errors += 1;
                if stats.name_errors > 200 {
                    panic!("grammar generator produces unparsable text: {}\n{}", e, text);
                }
            }
        }
    }
}

// ---------------------------------------------------------------------------------------
// measuring what was generated

pub fn feature_counts(g: &Grammar, out: &mut std::collections::BTreeMap<String, u64>) {
    let mut bump = |k: &str| *out.entry(k.to_string()).or_insert(0) += 1;
    for r in &g.raw {
        bump(&format!("kind.{:?}", r.kind));
        fn walk(e: &Expr, bump: &mut dyn FnMut(&str)) {
            let k = match e {
                Expr::Str(s) if s.is_empty() => "op.empty_str",
                Expr::Str(_) => "op.str",
                Expr::Insens(_) => "op.insens",
                Expr::Range(_, _) => "op.range",
                Expr::Ident(n) => {
                    if crate::ir::STACK_BUILTINS.contains(&n.as_str()) {
                        "op.stack_builtin"
                    } else if n.chars().all(|c| c.is_ascii_uppercase() || c == '_') {
                        "op.builtin"
                    } else {
                        "op.rule_ref"
                    }
                }
                Expr::PeekSlice(_, _) => "op.peek_slice",
                Expr::PosPred(_) => "op.pos_pred",
                Expr::NegPred(_) => "op.neg_pred",
                Expr::Seq(_, _) => "op.seq",
                Expr::Choice(_, _) => "op.choice",
                Expr::Opt(_) => "op.opt",
                Expr::Rep(_) => "op.rep",
                Expr::RepOnce(_) => "op.rep_once",
                Expr::RepExact(_, _) | Expr::RepMin(_, _) | Expr::RepMax(_, _) | Expr::RepMinMax(_, _, _) => "op.counted",
                Expr::Skip(_) => "op.skip_until",
                Expr::Push(_) => "op.push",
                Expr::RestoreOnErr(_) => "op.restore_on_err",
            };
            bump(k);
            for c in e.children() {
                walk(c, bump);
            }
        }
        walk(&r.expr, &mut bump);
    }
    for r in &g.opt {
        if r.expr.any(&|e| matches!(e, Expr::Skip(_))) {
            bump("optimised.skip_until");
        }
        if r.expr.any(&|e| matches!(e, Expr::RestoreOnErr(_))) {
            bump("optimised.restore_on_err");
        }
    }
    if g.has_ws() {
        bump("grammar.with_whitespace");
    }
    if g.has_comment() {
        bump("grammar.with_comment");
    }
    // recursion
    let mut rec = false;
    for r in &g.raw {
        let mut seen = std::collections::BTreeSet::new();
        let mut todo = vec![];
        r.expr.idents(&mut todo);
        while let Some(n) = todo.pop() {
            if n == r.name {
                rec = true;
                break;
            }
            if seen.insert(n.clone()) {
                if let Some(t) = g.rule(&n) {
                    t.expr.idents(&mut todo);
                }
            }
        }
    }
    if rec {
        bump("grammar.recursive");
    }
}

// ---------------------------------------------------------------------------------------
// deliberately ill-formed grammars (C11)

fn map_expr(e: &Expr, f: &mut dyn FnMut(&Expr) -> Option<Expr>) -> Expr {
    if let Some(r) = f(e) {
        return r;
    }
    let b = |x: &Expr, f: &mut dyn FnMut(&Expr) -> Option<Expr>| Box::new(map_expr(x, f));
    match e {
        Expr::PosPred(x) => Expr::PosPred(b(x, f)),
        Expr::NegPred(x) => Expr::NegPred(b(x, f)),
        Expr::Seq(l, r) => {
            let l2 = b(l, f);
            Expr::Seq(l2, b(r, f))
        }
        Expr::Choice(l, r) => {
            let l2 = b(l, f);
            Expr::Choice(l2, b(r, f))
        }
        Expr::Opt(x) => Expr::Opt(b(x, f)),
        Expr::Rep(x) => Expr::Rep(b(x, f)),
        Expr::RepOnce(x) => Expr::RepOnce(b(x, f)),
        Expr::RepExact(x, n) => Expr::RepExact(b(x, f), *n),
        Expr::RepMin(x, n) => Expr::RepMin(b(x, f), *n),
        Expr::RepMax(x, n) => Expr::RepMax(b(x, f), *n),
        Expr::RepMinMax(x, n, m) => Expr::RepMinMax(b(x, f), *n, *m),
        Expr::Push(x) => Expr::Push(b(x, f)),
        Expr::RestoreOnErr(x) => Expr::RestoreOnErr(b(x, f)),
        other => other.clone(),
    }
}

fn count_nodes(e: &Expr) -> usize {
    1 + e.children().iter().map(|c| count_nodes(c)).sum::<usize>()
}

/// One mutation of a valid grammar that tends to make it ill-formed.
pub fn mutate_grammar(rng: &mut Rng, g: &Grammar) -> (String, String) {
    let mut rules = g.raw.clone();
    let ri = rng.below(rules.len());
    let target = rng.below(count_nodes(&rules[ri].expr));
    let kind = rng.below(7);
    let self_name = rules[ri].name.clone();
    let mut i = 0usize;
    let label = ["wrap_in_star", "wrap_in_opt_then_star", "drop_guarding_literal", "redirect_to_self", "reorder_alternatives", "make_alternative_unfailing", "wrap_in_neg_pred_star"][kind];
    let new = map_expr(&rules[ri].expr.clone(), &mut |e: &Expr| {
        let here = i == target;
        i += 1;
        if !here {
            return None;
        }
        Some(match kind {
            0 => Expr::Rep(Box::new(e.clone())),
            1 => Expr::Rep(Box::new(Expr::Opt(Box::new(e.clone())))),
            2 => match e {
                Expr::Seq(_, r) => (**r).clone(),
                other => Expr::Opt(Box::new(other.clone())),
            },
            3 => Expr::Ident(self_name.clone()),
            4 => match e {
                Expr::Choice(l, r) => Expr::Choice(r.clone(), l.clone()),
                other => Expr::Choice(Box::new(Expr::Str(String::new())), Box::new(other.clone())),
            },
            5 => Expr::Choice(Box::new(Expr::Opt(Box::new(e.clone()))), Box::new(Expr::Str("zz".into()))),
            _ => Expr::Rep(Box::new(Expr::NegPred(Box::new(e.clone())))),
        })
    });
    rules[ri].expr = new;
    (label.to_string(), print_grammar(&rules))
}

/// Hand-written ill-formed shapes, each instantiated with small variations.
pub fn ill_formed_catalogue() -> Vec<(String, String)> {
    let mut v: Vec<(&str, String)> = vec![];
    let term = ["\"a\"", "'a'..'z'", "ANY", "^\"ab\""];
    for t in term {
        v.push(("left_recursion.direct", format!("a = {{ a ~ {t} }}")));
        v.push(("left_recursion.direct_choice", format!("a = {{ {t} | a ~ {t} }}")));
        v.push(("left_recursion.through_optional", format!("a = {{ b? ~ a ~ {t} }}\nb = {{ {t} }}")));
        v.push(("left_recursion.indirect", format!("a = {{ b ~ {t} }}\nb = {{ c | {t} }}\nc = {{ a ~ {t} }}")));
        v.push(("left_recursion.through_predicate", format!("a = {{ !{t} ~ a }}")));
        v.push(("left_recursion.through_pos_predicate", format!("a = {{ &{t} ~ a ~ {t} }}")));
        v.push(("left_recursion.through_silent", format!("a = {{ s ~ {t} }}\ns = _{{ a? ~ \"\" ~ a }}")));
        v.push(("left_recursion.through_push", format!("a = {{ PUSH(a) ~ {t} }}")));
        v.push(("left_recursion.through_star", format!("a = {{ {t}* ~ a }}")));
        v.push(("left_recursion.optional_self", format!("a = {{ b ~ \"x\" }}\nb = {{ a? ~ {t} }}")));
        v.push(("repetition.star_of_star", format!("a = {{ ({t}*)* }}")));
        v.push(("repetition.star_of_optional", format!("a = {{ ({t}?)* }}")));
        v.push(("repetition.plus_of_optional", format!("a = {{ ({t}?)+ }}")));
        v.push(("repetition.star_of_neg_pred", format!("a = {{ (!{t})* }}")));
        v.push(("repetition.star_of_pos_pred", format!("a = {{ (&{t})* }}")));
        v.push(("repetition.counted_of_optional", format!("a = {{ ({t}?){{2}} }}")));
        v.push(("repetition.min_of_star", format!("a = {{ ({t}*){{1,}} }}")));
        v.push(("repetition.star_of_nullable_rule", format!("a = {{ b* }}\nb = {{ {t}? }}")));
        v.push(("repetition.star_of_nullable_seq", format!("a = {{ ({t}? ~ {t}*)* }}")));
        v.push(("choice.unfailing_first", format!("a = {{ {t}? | \"b\" }}")));
        v.push(("choice.unfailing_star_first", format!("a = {{ {t}* | \"b\" }}")));
        v.push(("choice.unfailing_middle", format!("a = {{ \"x\" | {t}? | \"b\" }}")));
        v.push(("choice.unfailing_rule", format!("a = {{ b | \"c\" }}\nb = {{ {t}* }}")));
        v.push(("skip.whitespace_optional", format!("a = {{ \"a\" }}\nWHITESPACE = {{ {t}? }}")));
        v.push(("skip.whitespace_star", format!("a = {{ \"a\" }}\nWHITESPACE = {{ {t}* }}")));
        v.push(("skip.comment_predicate", format!("a = {{ \"a\" }}\nCOMMENT = {{ !{t} }}")));
        v.push(("skip.comment_optional", format!("a = {{ \"a\" }}\nCOMMENT = _{{ {t}? }}")));
        v.push(("zero.exact", format!("a = {{ {t}{{0}} }}")));
        v.push(("zero.max", format!("a = {{ {t}{{,0}} }}")));
    }
    v.push(("repetition.star_of_empty_string", "a = { (\"\")* }".into()));
    v.push(("repetition.star_of_soi", "a = { (SOI)* }".into()));
    v.push(("repetition.star_of_eoi", "a = { (EOI)* }".into()));
    v.push(("repetition.star_of_push_empty", "a = { (PUSH(\"\"))* }".into()));
    v.push(("repetition.plus_of_empty_string", "a = { (\"\")+ }".into()));
    v.push(("choice.empty_string_first", "a = { \"\" | \"a\" }".into()));
    v.push(("skip.whitespace_empty", "a = { \"a\" }\nWHITESPACE = { \"\" }".into()));
    v.push(("skip.whitespace_soi", "a = { \"a\" }\nWHITESPACE = { SOI }".into()));
    // well-formed relatives of the above, as negative controls
    v.push(("control.right_recursion", "a = { \"x\" ~ a | \"y\" }".into()));
    v.push(("control.star_of_seq", "a = { (\"a\" ~ \"b\"?)* }".into()));
    v.push(("control.choice_last_unfailing", "a = { \"a\" | \"b\"? }".into()));
    v.push(("control.guarded_indirect", "a = { \"(\" ~ b ~ \")\" }\nb = { a | \"x\" }".into()));
    v.into_iter().map(|(c, t)| (c.to_string(), t)).collect()
}
