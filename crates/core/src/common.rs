//! Shared plumbing of every check: seed/tier handling, evidence files, known findings,
//! violation reporting.  No randomness and no wall clock enters a verdict here; the clock
//! is only read for the `wall_s` field of the evidence.

use serde_json::{json, Map, Value};
use std::collections::{BTreeMap, BTreeSet};
use std::path::{Path, PathBuf};
use std::time::Instant;

/// Root of the verification tree: $VERIF_ROOT (set by ./check to the directory it lives in,
/// so that a snapshot of /verif is self-contained), default /verif.
pub fn verif_root() -> PathBuf {
    PathBuf::from(std::env::var("VERIF_ROOT").unwrap_or_else(|_| "/verif".to_string()))
}
/// The generated workspace the runner belongs to ($VERIF_WORK, default <root>/work).
pub fn work_dir() -> PathBuf {
    match std::env::var("VERIF_WORK") {
        Ok(w) => PathBuf::from(w),
        Err(_) => verif_root().join("work"),
    }
}

#[derive(Clone, Copy, Debug, PartialEq, Eq)]
pub enum Tier {
    Quick,
    Thorough,
}
impl Tier {
    pub fn name(self) -> &'static str {
        match self {
            Tier::Quick => "quick",
            Tier::Thorough => "thorough",
        }
    }
    pub fn parse(s: &str) -> Tier {
        match s {
            "thorough" => Tier::Thorough,
            _ => Tier::Quick,
        }
    }
    pub fn pick<T>(self, quick: T, thorough: T) -> T {
        match self {
            Tier::Quick => quick,
            Tier::Thorough => thorough,
        }
    }
}

pub fn env_seed() -> u64 {
    std::env::var("VERIF_SEED")
        .ok()
        .and_then(|s| s.trim().parse::<i64>().ok())
        .map(|v| v as u64)
        .unwrap_or(0)
}

/// splitmix64 – used to derive independent sub-seeds from VERIF_SEED.
pub fn mix(mut x: u64) -> u64 {
    x = x.wrapping_add(0x9E37_79B9_7F4A_7C15);
    let mut z = x;
    z = (z ^ (z >> 30)).wrapping_mul(0xBF58_476D_1CE4_E5B9);
    z = (z ^ (z >> 27)).wrapping_mul(0x94D0_49BB_1331_11EB);
    z ^ (z >> 31)
}

pub fn sub_seed(seed: u64, label: &str) -> u64 {
    let mut h = mix(seed);
    for b in label.bytes() {
        h = mix(h ^ b as u64);
    }
    h
}

/// A tiny deterministic PRNG for places where proptest is not driving (corpus generation,
/// long random texts in the run-time checks).  Everything is a pure function of the seed.
#[derive(Clone, Debug)]
pub struct Rng(pub u64);
impl Rng {
    pub fn new(seed: u64) -> Self {
        Rng(mix(seed ^ 0xA5A5_5A5A_1234_5678))
    }
    pub fn next_u64(&mut self) -> u64 {
        self.0 = self.0.wrapping_add(0x9E37_79B9_7F4A_7C15);
        let mut z = self.0;
        z = (z ^ (z >> 30)).wrapping_mul(0xBF58_476D_1CE4_E5B9);
        z = (z ^ (z >> 27)).wrapping_mul(0x94D0_49BB_1331_11EB);
        z ^ (z >> 31)
    }
    pub fn below(&mut self, n: usize) -> usize {
        if n == 0 {
            0
        } else {
            (self.next_u64() % n as u64) as usize
        }
    }
    pub fn range(&mut self, lo: usize, hi_incl: usize) -> usize {
        lo + self.below(hi_incl - lo + 1)
    }
    pub fn chance(&mut self, num: usize, den: usize) -> bool {
        self.below(den) < num
    }
    pub fn pick<'a, T>(&mut self, xs: &'a [T]) -> &'a T {
        &xs[self.below(xs.len())]
    }
}

pub fn fnv(bytes: &[u8]) -> u64 {
    let mut h: u64 = 0xcbf29ce484222325;
    for b in bytes {
        h ^= *b as u64;
        h = h.wrapping_mul(0x100000001b3);
    }
    h
}

/// One entry of /verif/known_findings.json.
#[derive(Clone, Debug)]
pub struct Finding {
    pub id: String,
    pub properties: Vec<String>,
    pub status: String,
    pub what: String,
    pub raw: Value,
}
impl Finding {
    pub fn open(&self) -> bool {
        self.status == "open"
    }
}

pub fn load_findings() -> Vec<Finding> {
    let p = verif_root().join("known_findings.json");
    let txt = match std::fs::read_to_string(&p) {
        Ok(t) => t,
        Err(_) => return vec![],
    };
    let v: Value = serde_json::from_str(&txt).expect("known_findings.json must parse");
    let mut out = vec![];
    for f in v["findings"].as_array().cloned().unwrap_or_default() {
        out.push(Finding {
            id: f["id"].as_str().unwrap_or("").to_string(),
            properties: f["properties"]
                .as_array()
                .map(|a| a.iter().filter_map(|x| x.as_str().map(String::from)).collect())
                .unwrap_or_default(),
            status: f["status"].as_str().unwrap_or("open").to_string(),
            what: f["what"].as_str().unwrap_or("").to_string(),
            raw: f.clone(),
        });
    }
    out
}

/// Collects what a run covered and writes `/verif/evidence/<id>.json`.
pub struct Evidence {
    pub property: String,
    pub tier: Tier,
    pub seed: u64,
    pub rule: String,
    pub evaluations: u64,
    nontrivial: BTreeSet<u64>,
    nontrivial_overflow: u64,
    pub samples: Vec<Value>,
    pub max_samples: usize,
    pub counters: BTreeMap<String, u64>,
    pub extra: Map<String, Value>,
    pub assumptions: Vec<String>,
    pub exhaustive: Option<bool>,
    pub violations: u64,
    pub known: BTreeMap<String, u64>,
    start: Instant,
    pub frozen: bool,
}

impl Evidence {
    pub fn new(property: &str, tier: Tier, seed: u64, rule: &str) -> Self {
        Evidence {
            property: property.to_string(),
            tier,
            seed,
            rule: rule.to_string(),
            evaluations: 0,
            nontrivial: BTreeSet::new(),
            nontrivial_overflow: 0,
            samples: vec![],
            max_samples: 12,
            counters: BTreeMap::new(),
            extra: Map::new(),
            assumptions: vec![],
            exhaustive: None,
            violations: 0,
            known: BTreeMap::new(),
            start: Instant::now(),
            frozen: false,
        }
    }
    /// Counting stops once a failure was seen, so that shrinking re-runs do not inflate it.
    pub fn eval(&mut self) {
        if !self.frozen {
            self.evaluations += 1;
        }
    }
    pub fn evals(&mut self, n: u64) {
        if !self.frozen {
            self.evaluations += n;
        }
    }
    pub fn nontrivial(&mut self, key: u64) {
        if self.frozen {
            return;
        }
        // the set is capped to keep memory bounded; beyond the cap the count is conservative
        if self.nontrivial.len() < 4_000_000 {
            self.nontrivial.insert(key);
        } else if !self.nontrivial.contains(&key) {
            self.nontrivial_overflow += 0; // not counted: cannot prove distinctness
        }
    }
    pub fn count(&mut self, name: &str) {
        self.add(name, 1);
    }
    pub fn add(&mut self, name: &str, n: u64) {
        if self.frozen {
            return;
        }
        *self.counters.entry(name.to_string()).or_insert(0) += n;
    }
    pub fn counter(&self, name: &str) -> u64 {
        self.counters.get(name).copied().unwrap_or(0)
    }
    /// Keep a sample; the first few of every `class` are kept so that samples are diverse.
    pub fn sample(&mut self, class: &str, v: Value) {
        if self.frozen {
            return;
        }
        let key = format!("samples_of.{}", class);
        let n = self.counters.get(&key).copied().unwrap_or(0);
        if n < 3 && self.samples.len() < self.max_samples {
            let mut m = Map::new();
            m.insert("class".into(), json!(class));
            m.insert("case".into(), v);
            self.samples.push(Value::Object(m));
            *self.counters.entry(key).or_insert(0) += 1;
        }
    }
    /// Record the violating case itself as a sample (evidence must hold a sample even when
    /// the run stopped at its first case).
    pub fn violation_sample(&mut self, v: &Value) {
        let mut m = Map::new();
        m.insert("class".into(), json!("violation"));
        m.insert("case".into(), v.clone());
        self.samples.insert(0, Value::Object(m));
    }
    pub fn distinct_nontrivial(&self) -> u64 {
        self.nontrivial.len() as u64
    }
    pub fn known_finding(&mut self, id: &str) {
        *self.known.entry(id.to_string()).or_insert(0) += 1;
    }
    pub fn write(&self) -> PathBuf {
        let dir = verif_root().join("evidence");
        let _ = std::fs::create_dir_all(&dir);
        let path = dir.join(format!("{}.json", self.property));
        let mut cov = Map::new();
        cov.insert("evaluations".into(), json!(self.evaluations));
        cov.insert("distinct_nontrivial".into(), json!(self.distinct_nontrivial()));
        cov.insert("rule".into(), json!(self.rule));
        cov.insert("samples".into(), Value::Array(self.samples.clone()));
        if let Some(e) = self.exhaustive {
            cov.insert("exhaustive".into(), json!(e));
        }
        let counters: Map<String, Value> = self
            .counters
            .iter()
            .filter(|(k, _)| !k.starts_with("samples_of."))
            .map(|(k, v)| (k.clone(), json!(v)))
            .collect();
        cov.insert("counters".into(), Value::Object(counters));
        if !self.known.is_empty() {
            let k: Map<String, Value> =
                self.known.iter().map(|(k, v)| (k.clone(), json!(v))).collect();
            cov.insert("known_finding_hits".into(), Value::Object(k));
        }
        for (k, v) in &self.extra {
            cov.insert(k.clone(), v.clone());
        }
        let doc = json!({
            "property_id": self.property,
            "tier": self.tier.name(),
            "seed": self.seed as i64,
            "level": "exploration",
            "coverage": Value::Object(cov),
            "assumptions": self.assumptions,
            "wall_s": (self.start.elapsed().as_millis() as f64) / 1000.0,
            "violations": self.violations as i64,
        });
        std::fs::write(&path, serde_json::to_string_pretty(&doc).unwrap()).expect("write evidence");
        path
    }
}

/// Write a replay file and print the VIOLATION line.  Returns the path.
pub fn report_violation(property: &str, replay: &Value) -> PathBuf {
    let dir = verif_root().join("work").join("replay");
    let _ = std::fs::create_dir_all(&dir);
    let txt = serde_json::to_string_pretty(replay).unwrap();
    let h = fnv(txt.as_bytes());
    let path = dir.join(format!("{}-{:016x}.json", property, h));
    std::fs::write(&path, txt).expect("write replay");
    println!("VIOLATION property={} replay={}", property, path.display());
    path
}

pub fn print_known(property: &str, id: &str, what: &str) {
    println!("KNOWN-FINDING: property={} {} {}", property, id, what);
}

/// Visible rendering of control characters for samples and messages.
pub fn show(s: &str) -> String {
    let mut o = String::new();
    for c in s.chars() {
        match c {
            '\n' => o.push_str("\\n"),
            '\r' => o.push_str("\\r"),
            '\t' => o.push_str("\\t"),
            c => o.push(c),
        }
    }
    o
}

/// Simple command-line parsing shared by the binaries: `--key value` pairs and flags.
pub struct Args {
    pub positional: Vec<String>,
    pub opts: BTreeMap<String, String>,
}
impl Args {
    pub fn parse() -> Self {
        let mut positional = vec![];
        let mut opts = BTreeMap::new();
        let mut it = std::env::args().skip(1).peekable();
        while let Some(a) = it.next() {
            if let Some(k) = a.strip_prefix("--") {
                let v = match it.peek() {
                    Some(n) if !n.starts_with("--") => it.next().unwrap(),
                    _ => "1".to_string(),
                };
                opts.insert(k.to_string(), v);
            } else {
                positional.push(a);
            }
        }
        Args { positional, opts }
    }
    pub fn get(&self, k: &str) -> Option<&str> {
        self.opts.get(k).map(|s| s.as_str())
    }
    pub fn tier(&self) -> Tier {
        let from_env = std::env::var("VERIF_TIER").ok();
        Tier::parse(self.get("tier").or(from_env.as_deref()).unwrap_or("quick"))
    }
    pub fn seed(&self) -> u64 {
        self.get("seed").and_then(|s| s.parse::<i64>().ok()).map(|v| v as u64).unwrap_or_else(env_seed)
    }
}
