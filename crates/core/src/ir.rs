//! Grammar IR: a superset of `pest_meta::ast::Expr` and `pest_meta::optimizer::OptimizedExpr`.
//!
//! Grammars are always obtained by parsing *text* with pest_meta, so the interpreter works on
//! what pest understood.  The printer below is used by the grammar generators.

use pest_meta::ast::{Expr as AExpr, Rule as ARule, RuleType};
use pest_meta::optimizer::{OptimizedExpr as OExpr, OptimizedRule as ORule};
use std::collections::BTreeMap;

#[derive(Clone, Copy, Debug, PartialEq, Eq, Hash, PartialOrd, Ord)]
pub enum Kind {
    Normal,
    Silent,
    Atomic,
    Compound,
    NonAtomic,
}
impl Kind {
    pub fn sigil(self) -> &'static str {
        match self {
            Kind::Normal => "",
            Kind::Silent => "_",
            Kind::Atomic => "@",
            Kind::Compound => "$",
            Kind::NonAtomic => "!",
        }
    }
    pub fn from_pest(t: RuleType) -> Kind {
        match t {
            RuleType::Normal => Kind::Normal,
            RuleType::Silent => Kind::Silent,
            RuleType::Atomic => Kind::Atomic,
            RuleType::CompoundAtomic => Kind::Compound,
            RuleType::NonAtomic => Kind::NonAtomic,
        }
    }
    pub const ALL: [Kind; 5] = [Kind::Normal, Kind::Silent, Kind::Atomic, Kind::Compound, Kind::NonAtomic];
}

#[derive(Clone, Debug, PartialEq, Eq, Hash)]
pub enum Expr {
    Str(String),
    Insens(String),
    Range(char, char),
    Ident(String),
    PeekSlice(i32, Option<i32>),
    PosPred(Box<Expr>),
    NegPred(Box<Expr>),
    Seq(Box<Expr>, Box<Expr>),
    Choice(Box<Expr>, Box<Expr>),
    Opt(Box<Expr>),
    Rep(Box<Expr>),
    RepOnce(Box<Expr>),
    RepExact(Box<Expr>, u32),
    RepMin(Box<Expr>, u32),
    RepMax(Box<Expr>, u32),
    RepMinMax(Box<Expr>, u32, u32),
    Skip(Vec<String>),
    Push(Box<Expr>),
    RestoreOnErr(Box<Expr>),
}

#[derive(Clone, Debug, PartialEq, Eq)]
pub struct Rule {
    pub name: String,
    pub kind: Kind,
    pub expr: Expr,
}

#[derive(Clone, Debug)]
pub struct Grammar {
    pub text: String,
    /// raw AST, as pest_meta's `consume_rules` returns it
    pub raw: Vec<Rule>,
    /// AST after `pest_meta::optimizer::optimize`
    pub opt: Vec<Rule>,
    pub index: BTreeMap<String, usize>,
}

fn one_char(s: &str) -> char {
    s.chars().next().unwrap_or('\0')
}

pub fn from_ast(e: &AExpr) -> Expr {
    let b = |e: &AExpr| Box::new(from_ast(e));
    match e {
        AExpr::Str(s) => Expr::Str(s.clone()),
        AExpr::Insens(s) => Expr::Insens(s.clone()),
        AExpr::Range(a, z) => Expr::Range(one_char(a), one_char(z)),
        AExpr::Ident(s) => Expr::Ident(s.clone()),
        AExpr::PeekSlice(a, z) => Expr::PeekSlice(*a, *z),
        AExpr::PosPred(e) => Expr::PosPred(b(e)),
        AExpr::NegPred(e) => Expr::NegPred(b(e)),
        AExpr::Seq(l, r) => Expr::Seq(b(l), b(r)),
        AExpr::Choice(l, r) => Expr::Choice(b(l), b(r)),
        AExpr::Opt(e) => Expr::Opt(b(e)),
        AExpr::Rep(e) => Expr::Rep(b(e)),
        AExpr::RepOnce(e) => Expr::RepOnce(b(e)),
        AExpr::RepExact(e, n) => Expr::RepExact(b(e), *n),
        AExpr::RepMin(e, n) => Expr::RepMin(b(e), *n),
        AExpr::RepMax(e, n) => Expr::RepMax(b(e), *n),
        AExpr::RepMinMax(e, n, m) => Expr::RepMinMax(b(e), *n, *m),
        AExpr::Skip(v) => Expr::Skip(v.clone()),
        AExpr::Push(e) => Expr::Push(b(e)),
    }
}

pub fn from_opt(e: &OExpr) -> Expr {
    let b = |e: &OExpr| Box::new(from_opt(e));
    match e {
        OExpr::Str(s) => Expr::Str(s.clone()),
        OExpr::Insens(s) => Expr::Insens(s.clone()),
        OExpr::Range(a, z) => Expr::Range(one_char(a), one_char(z)),
        OExpr::Ident(s) => Expr::Ident(s.clone()),
        OExpr::PeekSlice(a, z) => Expr::PeekSlice(*a, *z),
        OExpr::PosPred(e) => Expr::PosPred(b(e)),
        OExpr::NegPred(e) => Expr::NegPred(b(e)),
        OExpr::Seq(l, r) => Expr::Seq(b(l), b(r)),
        OExpr::Choice(l, r) => Expr::Choice(b(l), b(r)),
        OExpr::Opt(e) => Expr::Opt(b(e)),
        OExpr::Rep(e) => Expr::Rep(b(e)),
        OExpr::Skip(v) => Expr::Skip(v.clone()),
        OExpr::Push(e) => Expr::Push(b(e)),
        OExpr::RestoreOnErr(e) => Expr::RestoreOnErr(b(e)),
    }
}

fn conv_rules_ast(rs: &[ARule]) -> Vec<Rule> {
    rs.iter().map(|r| Rule { name: r.name.clone(), kind: Kind::from_pest(r.ty), expr: from_ast(&r.expr) }).collect()
}
fn conv_rules_opt(rs: &[ORule]) -> Vec<Rule> {
    rs.iter().map(|r| Rule { name: r.name.clone(), kind: Kind::from_pest(r.ty), expr: from_opt(&r.expr) }).collect()
}

/// What pest's front end says about a grammar text.
#[derive(Debug)]
pub enum PestVerdict {
    /// the text is not even syntactically a grammar
    SyntaxError(String),
    /// `validate_pairs` rejects it (undefined / duplicate rules, keywords): outside C11
    NameError(String),
    /// `consume_rules` (the validator for left recursion, non-progressing or non-failing
    /// repetitions and choices, skip rules) rejects it
    Rejected(String),
    Accepted(Box<Grammar>),
}

pub fn analyse(text: &str) -> PestVerdict {
    use pest_meta::parser::{self, Rule as PRule};
    let pairs = match parser::parse(PRule::grammar_rules, text) {
        Ok(p) => p,
        Err(e) => return PestVerdict::SyntaxError(format!("{}", e)),
    };
    if let Err(es) = pest_meta::validator::validate_pairs(pairs.clone()) {
        return PestVerdict::NameError(es.iter().map(|e| format!("{}", e)).collect::<Vec<_>>().join("\n"));
    }
    let ast = match parser::consume_rules(pairs) {
        Ok(a) => a,
        Err(es) => return PestVerdict::Rejected(es.iter().map(|e| format!("{}", e)).collect::<Vec<_>>().join("\n")),
    };
    let raw = conv_rules_ast(&ast);
    let opt = conv_rules_opt(&pest_meta::optimizer::optimize(ast));
    let index = raw.iter().enumerate().map(|(i, r)| (r.name.clone(), i)).collect();
    PestVerdict::Accepted(Box::new(Grammar { text: text.to_string(), raw, opt, index }))
}

impl Grammar {
    pub fn parse(text: &str) -> Result<Grammar, String> {
        match analyse(text) {
            PestVerdict::Accepted(g) => Ok(*g),
            other => Err(format!("{:?}", other)),
        }
    }
    pub fn rule(&self, name: &str) -> Option<&Rule> {
        self.index.get(name).map(|&i| &self.raw[i])
    }
    pub fn rule_opt(&self, name: &str) -> Option<&Rule> {
        self.index.get(name).map(|&i| &self.opt[i])
    }
    pub fn has(&self, name: &str) -> bool {
        self.index.contains_key(name)
    }
    pub fn has_ws(&self) -> bool {
        self.has("WHITESPACE")
    }
    pub fn has_comment(&self) -> bool {
        self.has("COMMENT")
    }
    /// rule `name` reaches a stack operation (directly or through rule references)
    pub fn rule_reaches_stack(&self, name: &str) -> bool {
        let mut seen = std::collections::BTreeSet::new();
        let mut todo = vec![name.to_string()];
        while let Some(n) = todo.pop() {
            if !seen.insert(n.clone()) {
                continue;
            }
            if let Some(r) = self.rule(&n) {
                if r.expr.any(&|e| e.is_stack_op()) {
                    return true;
                }
                r.expr.idents(&mut todo);
            }
        }
        false
    }
    pub fn uses_stack(&self) -> bool {
        self.raw.iter().any(|r| r.expr.any(&|e| e.is_stack_op()))
    }
}

pub const STACK_BUILTINS: [&str; 5] = ["PEEK", "POP", "DROP", "PEEK_ALL", "POP_ALL"];

impl Expr {
    pub fn children(&self) -> Vec<&Expr> {
        match self {
            Expr::PosPred(e) | Expr::NegPred(e) | Expr::Opt(e) | Expr::Rep(e) | Expr::RepOnce(e) | Expr::RepExact(e, _) | Expr::RepMin(e, _) | Expr::RepMax(e, _) | Expr::RepMinMax(e, _, _) | Expr::Push(e) | Expr::RestoreOnErr(e) => vec![e],
            Expr::Seq(l, r) | Expr::Choice(l, r) => vec![l, r],
            _ => vec![],
        }
    }
    pub fn any(&self, f: &dyn Fn(&Expr) -> bool) -> bool {
        f(self) || self.children().iter().any(|c| c.any(f))
    }
    pub fn is_stack_op(&self) -> bool {
        match self {
            Expr::Push(_) | Expr::PeekSlice(_, _) => true,
            Expr::Ident(n) => STACK_BUILTINS.contains(&n.as_str()),
            _ => false,
        }
    }
    /// Right spine of a Seq, as pest's generator and pest-typed's generator both flatten it.
    pub fn seq_items(&self) -> Vec<&Expr> {
        let mut v = vec![];
        let mut cur = self;
        while let Expr::Seq(l, r) = cur {
            v.push(&**l);
            cur = r;
        }
        v.push(cur);
        v
    }
    pub fn choice_items(&self) -> Vec<&Expr> {
        let mut v = vec![];
        let mut cur = self;
        while let Expr::Choice(l, r) = cur {
            v.push(&**l);
            cur = r;
        }
        v.push(cur);
        v
    }
    pub fn idents(&self, out: &mut Vec<String>) {
        if let Expr::Ident(n) = self {
            out.push(n.clone());
        }
        for c in self.children() {
            c.idents(out);
        }
    }
}

// ---------------------------------------------------------------------------------------
// printing to pest syntax

pub fn quote_str(s: &str) -> String {
    let mut o = String::from("\"");
    for c in s.chars() {
        match c {
            '"' => o.push_str("\\\""),
            '\\' => o.push_str("\\\\"),
            '\n' => o.push_str("\\n"),
            '\r' => o.push_str("\\r"),
            '\t' => o.push_str("\\t"),
            '\0' => o.push_str("\\0"),
            c if (c as u32) < 0x20 || c as u32 == 0x7f => o.push_str(&format!("\\u{{{:x}}}", c as u32)),
            c => o.push(c),
        }
    }
    o.push('"');
    o
}

pub fn quote_char(c: char) -> String {
    match c {
        '\'' => "'\\''".to_string(),
        '\\' => "'\\\\'".to_string(),
        '\n' => "'\\n'".to_string(),
        '\r' => "'\\r'".to_string(),
        '\t' => "'\\t'".to_string(),
        c if (c as u32) < 0x20 || c as u32 == 0x7f => format!("'\\u{{{:x}}}'", c as u32),
        c => format!("'{}'", c),
    }
}

/// precedence: 0 choice, 1 seq, 2 prefix/postfix/atom
fn prec(e: &Expr) -> u8 {
    match e {
        Expr::Choice(_, _) => 0,
        Expr::Seq(_, _) => 1,
        _ => 2,
    }
}

pub fn print_expr(e: &Expr) -> String {
    fn wrap(e: &Expr, min: u8) -> String {
        let s = print_expr(e);
        if prec(e) < min {
            format!("({})", s)
        } else {
            s
        }
    }
    // postfix operators bind to a term; predicates are prefix operators on a term
    fn term(e: &Expr) -> String {
        match e {
            Expr::Str(_) | Expr::Insens(_) | Expr::Range(_, _) | Expr::Ident(_) | Expr::PeekSlice(_, _) | Expr::Push(_) => print_expr(e),
            _ => format!("({})", print_expr(e)),
        }
    }
    match e {
        Expr::Str(s) => quote_str(s),
        Expr::Insens(s) => format!("^{}", quote_str(s)),
        Expr::Range(a, z) => format!("{}..{}", quote_char(*a), quote_char(*z)),
        Expr::Ident(n) => n.clone(),
        Expr::PeekSlice(a, z) => match z {
            Some(z) => format!("PEEK[{}..{}]", a, z),
            None => format!("PEEK[{}..]", a),
        },
        Expr::PosPred(e) => format!("&{}", term(e)),
        Expr::NegPred(e) => format!("!{}", term(e)),
        // the left operand of a right-nested binary node needs parentheses when it is
        // itself the same kind of node
        Expr::Seq(l, r) => format!("{} ~ {}", if matches!(**l, Expr::Seq(_, _)) { format!("({})", print_expr(l)) } else { wrap(l, 1) }, wrap(r, 1)),
        Expr::Choice(l, r) => format!("{} | {}", if matches!(**l, Expr::Choice(_, _)) { format!("({})", print_expr(l)) } else { wrap(l, 0) }, wrap(r, 0)),
        Expr::Opt(e) => format!("{}?", term(e)),
        Expr::Rep(e) => format!("{}*", term(e)),
        Expr::RepOnce(e) => format!("{}+", term(e)),
        Expr::RepExact(e, n) => format!("{}{{{}}}", term(e), n),
        Expr::RepMin(e, n) => format!("{}{{{},}}", term(e), n),
        Expr::RepMax(e, n) => format!("{}{{,{}}}", term(e), n),
        Expr::RepMinMax(e, n, m) => format!("{}{{{},{}}}", term(e), n, m),
        Expr::Push(e) => format!("PUSH({})", print_expr(e)),
        Expr::Skip(v) => {
            // not expressible directly; print the form the optimizer recognises
            let alts: Vec<String> = v.iter().map(|s| quote_str(s)).collect();
            format!("(!({}) ~ ANY)*", alts.join(" | "))
        }
        Expr::RestoreOnErr(e) => print_expr(e),
    }
}

pub fn print_rule(r: &Rule) -> String {
    format!("{} = {}{{ {} }}", r.name, r.kind.sigil(), print_expr(&r.expr))
}

pub fn print_grammar(rules: &[Rule]) -> String {
    rules.iter().map(print_rule).collect::<Vec<_>>().join("\n")
}
