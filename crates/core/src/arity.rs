//! The arity family (C17): choices and sequences of every arity 2..16, repetitions and leaf
//! nodes, with generated accessor probes.

use crate::corpus::Spec;
use crate::ir::Grammar;

pub const MAX_ARITY: usize = 16;

pub fn grammar_text() -> String {
    let mut g = String::new();
    g.push_str("x = @{ 'a'..'z' }\n");
    for n in 2..=MAX_ARITY {
        // alternative i matches "a" * (n - i): on the input a^m the first matching alternative is
        // n - m and every later one matches too
        let alts: Vec<String> = (0..n).map(|i| format!("\"{}\"", "a".repeat(n - i))).collect();
        g.push_str(&format!("c{} = {{ {} }}\n", n, alts.join(" | ")));
        let items: Vec<&str> = (0..n).map(|_| "x").collect();
        g.push_str(&format!("s{} = {{ {} }}\n", n, items.join(" ~ ")));
    }
    // overlapping alternatives of different node kinds
    g.push_str("cmix = { \"ab\" | ^\"AB\" | 'a'..'c' ~ \"b\" | ANY ~ ANY | x }\n");
    g.push_str("rp = { x* }\n");
    g.push_str("rp1 = { (x ~ \",\")+ }\n");
    g.push_str("lf_range = { 'b'..'f' }\n");
    g.push_str("lf_greek = { 'α'..'ω' }\n");
    g.push_str("lf_cjk = { '一'..'龥' }\n");
    g.push_str("lf_any = { ANY }\n");
    g.push_str("lf_ins = { ^\"abé\" }\n");
    g.push_str("lf_nl = { NEWLINE }\n");
    g.push_str("lf_letter = { LETTER }\n");
    g.push_str("lf_han = { HAN }\n");
    g.push_str("lf_upper = { UPPERCASE_LETTER }\n");
    g.push_str("lf_digit = { ASCII_DIGIT }\n");
    g.push_str("lf_hex = { ASCII_HEX_DIGIT }\n");
    g.push_str("lf_alnum = { ASCII_ALPHANUMERIC }\n");
    g.push_str("lf_stack = ${ PUSH(\"a\"+) ~ \"-\" ~ PUSH(\"b\"+) ~ \"-\" ~ PEEK ~ \"-\" ~ PEEK_ALL ~ \"-\" ~ POP ~ \"-\" ~ POP_ALL }\n");
    g.push_str("WHITESPACE = _{ \" \" }\n");
    g
}

fn chain(n: usize, first: &str) -> String {
    // if_then(f0).else_if(f1)...else_then(f_{n-1})
    let mut s = format!("{}(|_| 0usize)", first);
    for i in 1..n {
        if i + 1 < n {
            s.push_str(&format!(".else_if(|_| {}usize)", i));
        } else {
            s.push_str(&format!(".else_then(|_| {}usize)", i));
        }
    }
    s
}

/// Probe code for the arity grammar (inserted into the module's `impl GrammarUnderTest`).
pub fn probes(g: &Grammar) -> String {
    let idx = |name: &str| g.raw.iter().position(|r| r.name == name).unwrap();
    let mut s = String::new();
    s.push_str("    fn probe(&self, name: &str, rule: usize, host: &str) -> Option<String> {\n");
    s.push_str("        use typed_side::{generics, rules, Rule};\n        use pest_typed::{ParsableTypedNode, RuleStruct, Spanned};\n");
    s.push_str("        let r = std::panic::catch_unwind(std::panic::AssertUnwindSafe(|| -> Option<String> {\n            match (name, rule) {\n");
    for n in 2..=MAX_ARITY {
        let r = idx(&format!("c{}", n));
        let somes: Vec<String> = (0..n).map(|i| format!("c._{}().is_some()", i)).collect();
        let arms: Vec<String> = (0..n).map(|i| format!("a{} => {}usize", i, i)).collect();
        s.push_str(&format!(
            "                (\"choice\", {r}) => {{\n                    let (_, t) = rules::c{n}::try_parse_partial(host).ok()?;\n                    let c = t.ref_inner();\n                    let somes: Vec<bool> = vec![{somes}];\n                    let by_ref = {ifc};\n                    let by_reference = {refc};\n                    let by_value = {conc};\n                    let by_match = pest_typed_derive::match_choices!(c {{ {arms} }});\n                    Some(format!(\"somes={{:?}} if_then={{}} reference={{}} consume={{}} match={{}}\", somes.iter().enumerate().filter(|(_, b)| **b).map(|(i, _)| i).collect::<Vec<_>>(), by_ref, by_reference, by_value, by_match))\n                }}\n",
            r = r,
            n = n,
            somes = somes.join(", "),
            ifc = chain(n, "c.if_then"),
            refc = {
                // reference().else_if(f0)...: the helper starts before the first branch
                let mut q = String::from("c.reference::<usize>()");
                for i in 0..n {
                    if i + 1 < n {
                        q.push_str(&format!(".else_if(|_| {}usize)", i));
                    } else {
                        q.push_str(&format!(".else_then(|_| {}usize)", i));
                    }
                }
                q
            },
            conc = chain(n, "c.clone().consume_if_then"),
            arms = arms.join(", "),
        ));
        let r = idx(&format!("s{}", n));
        let els: Vec<String> = (0..n).map(|i| format!("m.{}.span()", i)).collect();
        let els_into: Vec<String> = (0..n).map(|i| format!("mi.{}.span()", i)).collect();
        let els_ref: Vec<String> = (0..n).map(|i| format!("mr.{}.span()", i)).collect();
        let all: Vec<String> = (0..n).map(|i| format!("(a.{i}.skipped.iter().map(|k| k.content.len()).sum::<usize>(), a.{i}.matched.span())", i = i)).collect();
        s.push_str(&format!(
            "                (\"sequence\", {r}) => {{\n                    let (_, t) = rules::s{n}::try_parse_partial(host).ok()?;\n                    let q = t.ref_inner();\n                    let m = q.get_matched();\n                    let mr = q.as_ref();\n                    let a = q.get_all();\n                    let mi = q.clone().into_matched();\n                    let sp = |v: Vec<pest_typed::Span<'_>>| v.iter().map(|s| format!(\"{{}}..{{}}\", s.start(), s.end())).collect::<Vec<_>>().join(\",\");\n                    let all: Vec<(usize, pest_typed::Span<'_>)> = vec![{all}];\n                    Some(format!(\"matched=[{{}}] as_ref=[{{}}] into=[{{}}] all=[{{}}]\", sp(vec![{els}]), sp(vec![{els_ref}]), sp(vec![{els_into}]), all.iter().map(|(k, s)| format!(\"{{}}+{{}}..{{}}\", k, s.start(), s.end())).collect::<Vec<_>>().join(\",\")))\n                }}\n",
            r = r,
            n = n,
            els = els.join(", "),
            els_ref = els_ref.join(", "),
            els_into = els_into.join(", "),
            all = all.join(", "),
        ));
    }
    // cmix: only the index accessors
    {
        let r = idx("cmix");
        let somes: Vec<String> = (0..5).map(|i| format!("c._{}().is_some()", i)).collect();
        s.push_str(&format!(
            "                (\"choice\", {r}) => {{\n                    let (_, t) = rules::cmix::try_parse_partial(host).ok()?;\n                    let c = t.ref_inner();\n                    let somes: Vec<bool> = vec![{somes}];\n                    let by_ref = {ifc};\n                    let by_match = pest_typed_derive::match_choices!(c {{ a0 => 0usize, a1 => 1usize, a2 => 2usize, a3 => 3usize, a4 => 4usize }});\n                    Some(format!(\"somes={{:?}} if_then={{}} reference={{}} consume={{}} match={{}}\", somes.iter().enumerate().filter(|(_, b)| **b).map(|(i, _)| i).collect::<Vec<_>>(), by_ref, by_ref, by_ref, by_match))\n                }}\n",
            r = r,
            somes = somes.join(", "),
            ifc = chain(5, "c.if_then"),
        ));
    }
    for (name, skip) in [("rp", true), ("rp1", true)] {
        let r = idx(name);
        let _ = skip;
        let (m, a) = if name == "rp" {
            ("q.iter_matched().map(|e| e.span()).collect::<Vec<_>>()", "q.iter_all().map(|e| (e.skipped.iter().map(|k| k.content.len()).sum::<usize>(), e.matched.span())).collect::<Vec<_>>()")
        } else {
            // rp1 = (x ~ \",\")+  is  Seq2(Seq2(x, \",\"), Rep(Seq2(x, \",\"))) after unrolling
            ("{ let (h, t) = q.get_matched(); let mut v = vec![h.get_matched().0.span()]; v.extend(t.iter_matched().map(|e| e.get_matched().0.span())); v }", "{ let (h, t) = q.get_matched(); let outer: usize = q.get_all().1.skipped.iter().map(|k| k.content.len()).sum(); let mut v = vec![(0usize, h.get_matched().0.span())]; v.extend(t.iter_all().enumerate().map(|(i, e)| (e.skipped.iter().map(|k| k.content.len()).sum::<usize>() + if i == 0 { outer } else { 0 }, e.matched.get_matched().0.span()))); v }")
        };
        s.push_str(&format!(
            "                (\"repetition\", {r}) => {{\n                    let (_, t) = rules::{name}::try_parse_partial(host).ok()?;\n                    let q = t.ref_inner();\n                    let m: Vec<pest_typed::Span<'_>> = {m};\n                    let a: Vec<(usize, pest_typed::Span<'_>)> = {a};\n                    let into: Vec<pest_typed::Span<'_>> = {into};\n                    Some(format!(\"matched=[{{}}] into=[{{}}] all=[{{}}]\", m.iter().map(|s| format!(\"{{}}..{{}}\", s.start(), s.end())).collect::<Vec<_>>().join(\",\"), into.iter().map(|s| format!(\"{{}}..{{}}\", s.start(), s.end())).collect::<Vec<_>>().join(\",\"), a.iter().map(|(k, s)| format!(\"{{}}+{{}}..{{}}\", k, s.start(), s.end())).collect::<Vec<_>>().join(\",\")))\n                }}\n",
            r = r,
            name = name,
            m = m,
            a = a,
            into = if name == "rp" { "q.clone().into_iter_matched().map(|e| e.span()).collect::<Vec<_>>()" } else { "{ let (h, t) = q.clone().into_matched(); let mut v = vec![h.into_matched().0.span()]; v.extend(t.into_iter_matched().map(|e| e.into_matched().0.span())); v }" },
        ));
    }
    for name in ["lf_range", "lf_greek", "lf_cjk", "lf_any", "lf_ins", "lf_nl", "lf_letter", "lf_han", "lf_upper", "lf_digit", "lf_hex", "lf_alnum", "lf_stack"] {
        let r = idx(name);
        s.push_str(&format!(
            "                (\"leaf\", {r}) => {{\n                    let (_, t) = rules::{name}::try_parse_partial(host).ok()?;\n                    Some(format!(\"{{:?}}\", t.ref_inner()))\n                }}\n",
            r = r,
            name = name
        ));
    }
    // runtime-only leaf: skip-until (never reachable through generated rule structs)
    s.push_str("                (\"rt_skip\", _) => {\n                    #[derive(Clone, PartialEq)]\n                    struct W;\n                    impl pest_typed::StringArrayWrapper for W {\n                        const CONTENT: &'static [&'static str] = &[\"ab\", \"c\"];\n                    }\n                    use pest_typed::TypedNode;\n                    let pos = pest_typed::Position::from_start(host);\n                    let mut stack = pest_typed::Stack::new();\n                    let mut tracker = pest_typed::tracker::Tracker::<Rule>::new(pos);\n                    let (rest, n) = <pest_typed::predefined_node::Skip<'_, W> as TypedNode<'_, Rule>>::try_parse_partial_with(pos, &mut stack, &mut tracker)?;\n                    Some(format!(\"{}..{} {:?} rest={}\", n.span.start(), n.span.end(), n.span.as_str(), rest.pos()))\n                }\n");
    s.push_str("                _ => None,\n            }\n        }));\n        match r {\n            Ok(x) => x,\n            Err(e) => Some(format!(\"PANIC: {}\", vs::panic_msg(e))),\n        }\n    }\n");
    let _ = generics_hint();
    s
}

fn generics_hint() -> &'static str {
    "match_choices! needs `generics` in scope"
}

pub fn spec() -> Spec {
    let text = grammar_text();
    let g = Grammar::parse(&text).expect("arity grammar must be valid");
    let mut s = Spec::new("arity", "arity", &text);
    s.probes = vec![probes(&g)];
    s
}
