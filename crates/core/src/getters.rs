//! C16: what the generated getters must return.
//!
//! `gtype` rebuilds, from the documented rules alone, the shape the getter `r.x()` has
//! (reference / Option / Vec / tuple, nested options flattened); `eval` walks that shape along
//! the reference derivation of r's own expression and yields the expected value; `probes`
//! emits the harness code that calls every getter of a grammar.

use crate::corpus::Spec;
use crate::interp::{render_toks, token_forest, Emission, Node, NK};
use crate::ir::{Expr, Grammar, Kind};

#[derive(Clone, Debug, PartialEq)]
pub enum T {
    Rule,
    Content(Box<T>),
    SequenceI(usize, Box<T>),
    ChoiceI(usize, bool, Box<T>),
    Optional(bool, Box<T>),
    Contents(Box<T>),
    Tuple(Vec<T>),
}

fn flattenable(t: &T) -> bool {
    match t {
        T::Rule => false,
        T::Content(i) | T::SequenceI(_, i) => flattenable(i),
        T::ChoiceI(_, false, _) | T::Optional(false, _) => true,
        T::ChoiceI(_, true, i) | T::Optional(true, i) => flattenable(i),
        T::Contents(_) | T::Tuple(_) => false,
    }
}

fn merge(a: T, b: T) -> T {
    match (a, b) {
        (T::Tuple(mut x), T::Tuple(y)) => {
            x.extend(y);
            T::Tuple(x)
        }
        (T::Tuple(mut x), y) => {
            x.push(y);
            T::Tuple(x)
        }
        (x, T::Tuple(y)) => {
            let mut v = vec![x];
            v.extend(y);
            T::Tuple(v)
        }
        (x, y) => T::Tuple(vec![x, y]),
    }
}

fn join(acc: Option<T>, t: Option<T>) -> Option<T> {
    match (acc, t) {
        (None, t) => t,
        (a, None) => a,
        (Some(a), Some(b)) => Some(merge(a, b)),
    }
}

/// Shape of the getter for `x` in expression `e` (optimised AST), None: x is not mentioned
/// outside a negative predicate.
pub fn gtype(e: &Expr, x: &str) -> Option<T> {
    match e {
        Expr::Ident(id) => (id == x).then_some(T::Rule),
        Expr::Push(i) | Expr::PosPred(i) => gtype(i, x).map(|t| T::Content(Box::new(t))),
        Expr::NegPred(_) => None,
        Expr::RestoreOnErr(i) => gtype(i, x),
        Expr::Seq(_, _) => {
            let mut acc = None;
            for (i, item) in e.seq_items().iter().enumerate() {
                acc = join(acc, gtype(item, x).map(|t| T::SequenceI(i, Box::new(t))));
            }
            acc
        }
        Expr::Choice(_, _) => {
            let mut acc = None;
            for (i, item) in e.choice_items().iter().enumerate() {
                acc = join(acc, gtype(item, x).map(|t| {
                    let f = flattenable(&t);
                    T::ChoiceI(i, f, Box::new(t))
                }));
            }
            acc
        }
        Expr::Opt(i) => gtype(i, x).map(|t| {
            let f = flattenable(&t);
            T::Optional(f, Box::new(t))
        }),
        Expr::Rep(i) | Expr::RepOnce(i) => gtype(i, x).map(|t| T::Contents(Box::new(t))),
        _ => None,
    }
}

#[derive(Clone, Debug, PartialEq)]
pub enum V {
    Leaf(String),
    None,
    Some(Box<V>),
    Vec(Vec<V>),
    Tuple(Vec<V>),
}

impl V {
    pub fn render(&self, out: &mut String) {
        match self {
            V::Leaf(s) => out.push_str(s),
            V::None => out.push('-'),
            V::Some(v) => {
                out.push('?');
                v.render(out)
            }
            V::Vec(vs) => {
                out.push('[');
                for (i, v) in vs.iter().enumerate() {
                    if i > 0 {
                        out.push(',');
                    }
                    v.render(out);
                }
                out.push(']');
            }
            V::Tuple(vs) => {
                out.push('(');
                for (i, v) in vs.iter().enumerate() {
                    if i > 0 {
                        out.push(',');
                    }
                    v.render(out);
                }
                out.push(')');
            }
        }
    }
    pub fn leaves(&self) -> usize {
        match self {
            V::Leaf(_) => 1,
            V::None => 0,
            V::Some(v) => v.leaves(),
            V::Vec(v) | V::Tuple(v) => v.iter().map(|x| x.leaves()).sum(),
        }
    }
}

fn items(n: &Node) -> Vec<&Node> {
    n.kids.iter().filter(|k| k.kind != NK::Skip).collect()
}

/// The rendering of one referenced node, as `verif_support::Leaf` renders it.
pub fn leaf_info(g: &Grammar, input: &str, n: &Node) -> String {
    match &n.kind {
        NK::Rule { idx, kind, .. } => {
            let name = &g.raw[*idx].name;
            let toks = token_forest(g, n, Emission::TypedStruct);
            if *kind == Kind::Silent {
                format!("{}[{}]", name, render_toks(&toks))
            } else {
                format!("{}@{}..{}[{}]", name, n.start, n.end, render_toks(&toks))
            }
        }
        NK::Eoi { .. } => format!("EOI@{}..{}[EOI({},{})]", n.start, n.end, n.start, n.end),
        NK::Builtin(b) => match b.as_str() {
            "SOI" => "SOI".into(),
            "DROP" => "DROP".into(),
            "NEWLINE" => format!("NL:{}", match &input[n.start..n.end] {
                "\r\n" => "CRLF",
                "\n" => "LF",
                _ => "CR",
            }),
            "PEEK" | "PEEK_ALL" | "POP_ALL" => format!("{}@{}..{}", b, n.start, n.end),
            "POP" => format!("POP{:?}", &input[n.start..n.end]),
            _ => format!("{:?}", input[n.start..n.end].chars().next().unwrap_or('\0')),
        },
        other => format!("?{:?}", other),
    }
}

fn flatten(v: V) -> V {
    match v {
        V::Some(inner) => *inner,
        other => other,
    }
}

/// Expected value of the getter along the derivation node of the same expression.
pub fn eval(t: &T, n: &Node, g: &Grammar, input: &str) -> V {
    match t {
        T::Rule => V::Leaf(leaf_info(g, input, n)),
        T::Content(i) => eval(i, &n.kids[0], g, input),
        T::SequenceI(k, i) => eval(i, items(n)[*k], g, input),
        T::ChoiceI(k, flat, i) => match n.kind {
            NK::Choice(j) if j == *k => {
                let v = eval(i, &n.kids[0], g, input);
                if *flat {
                    v
                } else {
                    V::Some(Box::new(v))
                }
            }
            _ => V::None,
        },
        T::Optional(flat, i) => {
            if n.kids.is_empty() {
                V::None
            } else {
                let v = eval(i, &n.kids[0], g, input);
                if *flat {
                    v
                } else {
                    V::Some(Box::new(v))
                }
            }
        }
        T::Contents(i) => V::Vec(items(n).into_iter().map(|k| eval(i, k, g, input)).collect()),
        T::Tuple(ts) => V::Tuple(ts.iter().map(|t| eval(t, n, g, input)).collect()),
    }
}

#[allow(dead_code)]
fn unused(v: V) -> V {
    flatten(v)
}

/// Names mentioned outside negative predicates, in first-mention order.
pub fn mentioned(e: &Expr, out: &mut Vec<String>) {
    match e {
        Expr::Ident(n) => {
            if !out.contains(n) {
                out.push(n.clone());
            }
        }
        Expr::NegPred(_) => {}
        _ => {
            for c in e.children() {
                mentioned(c, out);
            }
        }
    }
}

/// Builtins the harness can render as leaves.
pub fn supported_leaf(g: &Grammar, name: &str) -> bool {
    if g.has(name) {
        return true;
    }
    const OK: [&str; 19] = ["ANY", "SOI", "EOI", "DROP", "NEWLINE", "PEEK", "PEEK_ALL", "POP", "POP_ALL", "ASCII_DIGIT", "ASCII_NONZERO_DIGIT", "ASCII_BIN_DIGIT", "ASCII_OCT_DIGIT", "ASCII_HEX_DIGIT", "ASCII_ALPHA_LOWER", "ASCII_ALPHA_UPPER", "ASCII_ALPHA", "ASCII_ALPHANUMERIC", "ASCII"];
    OK.contains(&name) || crate::grammargen::UNICODE_SAMPLE.contains(&name)
}

/// (rule index, getter name) pairs of a grammar.
pub fn getter_list(g: &Grammar) -> Vec<(usize, String)> {
    getter_list_for(g, true)
}

/// `optimised`: shapes follow the optimised AST (default) or the raw AST (`pest_optimizer = false`)
pub fn getter_list_for(g: &Grammar, optimised: bool) -> Vec<(usize, String)> {
    let mut v = vec![];
    let rules = if optimised { &g.opt } else { &g.raw };
    for (i, r) in rules.iter().enumerate() {
        if r.kind == Kind::Atomic {
            continue; // span only: no getters
        }
        let mut names = vec![];
        mentioned(&r.expr, &mut names);
        for n in names {
            if supported_leaf(g, &n) && gtype(&r.expr, &n).is_some() {
                v.push((i, n));
            }
        }
    }
    v
}

/// Harness code for one getter-family grammar.
pub fn probes(g: &Grammar) -> String {
    probes_for(g, true)
}

pub fn probes_for(g: &Grammar, optimised: bool) -> String {
    let mut s = String::new();
    // Leaf impls for the rule structs (written outside the impl block by the emitter: the
    // marker line separates them)
    s.push_str("    fn probe(&self, name: &str, rule: usize, host: &str) -> Option<String> {\n        use typed_side::rules;\n        use pest_typed::ParsableTypedNode;\n");
    s.push_str("        let r = std::panic::catch_unwind(std::panic::AssertUnwindSafe(|| -> Option<String> {\n            match (name, rule) {\n");
    for (i, x) in getter_list_for(g, optimised) {
        let r = &g.opt[i].name;
        s.push_str(&format!(
            "                ({:?}, {}) => {{ let (_, t) = rules::r#{}::try_parse_partial(host).ok()?; Some(vs::flat(&t.r#{}())) }}\n",
            format!("getter:{}", x),
            i,
            r,
            x
        ));
    }
    s.push_str("                _ => None,\n            }\n        }));\n        match r {\n            Ok(x) => x,\n            Err(e) => Some(format!(\"PANIC: {}\", vs::panic_msg(e))),\n        }\n    }\n");
    s
}

/// Code placed after the impl block: `Leaf` for every rule struct of the grammar.
pub fn leaf_impls(g: &Grammar) -> String {
    let mut s = String::new();
    for r in &g.raw {
        let span = if r.kind == Kind::Silent { "None".to_string() } else { "{ use pest_typed::Spanned; let s = self.span(); Some((s.start(), s.end())) }".to_string() };
        s.push_str(&format!(
            "impl<'i, const I: usize> vs::Leaf for typed_side::rules::r#{name}<'i, I> {{\n    fn info(&self, out: &mut String) {{\n        vs::rule_leaf::<typed_side::Rule, _>(self, {name:?}, {span}, out)\n    }}\n}}\n",
            name = r.name,
            span = span
        ));
    }
    if !g.has("EOI") {
        s.push_str("impl<'i, const I: usize> vs::Leaf for typed_side::rules::EOI<'i, I> {\n    fn info(&self, out: &mut String) {\n        use pest_typed::Spanned; let s = self.span();\n        vs::rule_leaf::<typed_side::Rule, _>(self, \"EOI\", Some((s.start(), s.end())), out)\n    }\n}\n");
    }
    s
}

pub fn make_spec(id: &str, text: &str) -> Option<Spec> {
    make_spec_for(id, text, true)
}

pub fn make_spec_for(id: &str, text: &str, optimised: bool) -> Option<Spec> {
    let g = Grammar::parse(text).ok()?;
    let mut s = Spec::new(id, "getter", text);
    s.options = vec!["emit_rule_reference".into()];
    if !optimised {
        s.options.push("pest_optimizer = false".into());
    }
    s.probes = vec![probes_for(&g, optimised), format!("//AFTER_IMPL\n{}", leaf_impls(&g))];
    Some(s)
}

pub const HAND_WRITTEN: [&str; 3] = [
    // mentions under nested options / choices / repetitions / predicates / PUSH, repeated
    "x = { 'a'..'c' }\ny = @{ 'd'..'f' }\nz = _{ x | \"(\" ~ y ~ \")\" }\nopt = { x? ~ y }\noptopt = { (x?)? ~ (y | x)? ~ \"!\" }\nrep = { x* ~ (y ~ x)* }\nrepopt = { (x? ~ \",\")* }\ntwice = { x ~ y ~ x }\nnested = { (x ~ (y ~ x)?)+ ~ z }\nalt = { x ~ y | y ~ x | z }\naltopt = { (x | y)? ~ (y | \"-\")? }\npreds = { &x ~ !y ~ x ~ &(y ~ x) ~ y }\npush = ${ PUSH(x) ~ y ~ POP }\nsil = { z ~ z? ~ (z ~ \",\")* }\nbuiltins = { ANY ~ ASCII_DIGIT* ~ (NEWLINE | SOI)? ~ ASCII_ALPHA }\ntail = { x ~ EOI }\ndeep3 = { \"<\" ~ (x ~ (y ~ (x ~ y?)?)?)? ~ \">\" }\ndeep4 = ${ y ~ (\".\" ~ y ~ (\"e\" ~ (x | y)? ~ y)?)? }\nWHITESPACE = _{ \" \" }",
    "k = { \"k\" }\nv = { ASCII_DIGIT+ }\npair = { k ~ \"=\" ~ v }\nlist = { pair ~ (\",\" ~ pair)* }\nmaybe = { (list | pair | k)? ~ \";\" }\ndeep = { ((k ~ v?)* ~ (pair | k ~ k))+ }\nmix = { (k | v)* ~ (k ~ v | v ~ k)? }\ncmp = ${ k ~ (v | k)* }\nnon = !{ k ~ v ~ k }\nW = _{ \" \" }",
    "a = { \"a\" ~ b? }\nb = { \"b\" ~ (a | c)* }\nc = { \"c\" ~ (&a ~ a | !a ~ b)? }\nd = { (a ~ b ~ c | c ~ b ~ a | b)+ }\ne = { PUSH(a) ~ (PEEK | b) ~ DROP }\nCOMMENT = _{ \"#\" }",
];
