//! Tape-driven input generation (DESIGN.md section 4.2).
//!
//! A `Vec<u8>` drawn by proptest steers a walk over a rule's expression and the mutations
//! applied afterwards.  The tape is the proptest value, so shrinking yields shorter walks and
//! replay is exact.  When the tape is exhausted every choice is the simplest one.

use crate::ir::{Expr, Grammar, Kind};

pub struct Tape<'a> {
    data: &'a [u8],
    pos: usize,
}
impl<'a> Tape<'a> {
    pub fn new(data: &'a [u8]) -> Self {
        Tape { data, pos: 0 }
    }
    pub fn byte(&mut self) -> u8 {
        let b = self.data.get(self.pos).copied().unwrap_or(0);
        self.pos += 1;
        b
    }
    /// monotone index in 0..n (shrinks towards 0)
    pub fn below(&mut self, n: usize) -> usize {
        if n <= 1 {
            return 0;
        }
        (self.byte() as usize * n) >> 8
    }
    pub fn chance(&mut self, num: usize, den: usize) -> bool {
        // true is the "interesting" outcome: only when the byte is large enough
        let b = self.byte() as usize;
        b * den >= (den - num) * 256 && b > 0
    }
    pub fn exhausted(&self) -> bool {
        self.pos >= self.data.len()
    }
}

pub fn alphabet(g: &Grammar) -> Vec<char> {
    let mut v: Vec<char> = vec![' ', 'a', 'b', 'x', '\n', 'é', '中', '😀', '1', 'A', '\t', '\r', '#'];
    fn walk(e: &Expr, v: &mut Vec<char>) {
        match e {
            Expr::Str(s) | Expr::Insens(s) => {
                for c in s.chars() {
                    v.push(c);
                    if c.is_ascii_alphabetic() {
                        v.push(if c.is_ascii_lowercase() { c.to_ascii_uppercase() } else { c.to_ascii_lowercase() });
                    }
                }
            }
            Expr::Range(a, z) => {
                v.push(*a);
                v.push(*z);
                if let Some(c) = char::from_u32(*z as u32 + 1) {
                    v.push(c);
                }
                if *a as u32 > 0 {
                    if let Some(c) = char::from_u32(*a as u32 - 1) {
                        v.push(c);
                    }
                }
            }
            Expr::Skip(ss) => {
                for s in ss {
                    v.extend(s.chars());
                }
            }
            _ => {}
        }
        for c in e.children() {
            walk(c, v);
        }
    }
    for r in &g.raw {
        walk(&r.expr, &mut v);
    }
    // grammars that mention Unicode property rules get the candidate characters as well
    let mut ids = vec![];
    for r in &g.raw {
        r.expr.idents(&mut ids);
    }
    if ids.iter().any(|n| !g.has(n) && pest::unicode::by_name(n).is_some()) {
        v.extend(UNICODE_CANDIDATES.iter().copied());
        v.extend(['\u{ff}', '\u{100}', '\u{2b0}', '\u{370}', '\u{3ff}', '\u{400}', '\u{4e00}', '\u{9fff}', '\u{a000}', '\u{10000}', '\u{1f600}', '\u{e000}', '\u{fffd}']);
    }
    v.sort();
    v.dedup();
    v
}

const UNICODE_CANDIDATES: [char; 24] = ['a', 'Z', 'é', 'ß', 'α', 'Ω', 'ж', '中', '漢', '1', '٣', '²', ' ', '\u{3000}', '!', '。', '+', '€', '😀', '\u{301}', '_', 'ǅ', 'ª', '\u{200d}'];

fn builtin_char(name: &str, t: &mut Tape, alpha: &[char]) -> Option<String> {
    let pick = |t: &mut Tape, s: &str| -> String {
        let cs: Vec<char> = s.chars().collect();
        cs[t.below(cs.len())].to_string()
    };
    Some(match name {
        "ANY" => alpha[t.below(alpha.len())].to_string(),
        "ASCII_DIGIT" => pick(t, "0519"),
        "ASCII_NONZERO_DIGIT" => pick(t, "159"),
        "ASCII_BIN_DIGIT" => pick(t, "01"),
        "ASCII_OCT_DIGIT" => pick(t, "07"),
        "ASCII_HEX_DIGIT" => pick(t, "0a9fAF"),
        "ASCII_ALPHA_LOWER" => pick(t, "abxz"),
        "ASCII_ALPHA_UPPER" => pick(t, "ABXZ"),
        "ASCII_ALPHA" => pick(t, "aBxZ"),
        "ASCII_ALPHANUMERIC" => pick(t, "a1B9z"),
        "ASCII" => pick(t, "a \u{7f}1\n"),
        "NEWLINE" => ["\n", "\r\n", "\r"][t.below(3)].to_string(),
        other => {
            let f = pest::unicode::by_name(other)?;
            let members: Vec<char> = UNICODE_CANDIDATES.iter().copied().filter(|c| f(*c)).collect();
            if members.is_empty() {
                return None;
            }
            members[t.below(members.len())].to_string()
        }
    })
}

pub struct SentenceGen<'g> {
    pub g: &'g Grammar,
    pub alpha: Vec<char>,
    skippables: Vec<String>,
    near_skippables: Vec<String>,
}

struct Walk<'t, 'a> {
    t: &'t mut Tape<'a>,
    out: String,
    stack: Vec<String>,
    budget: usize,
}

impl<'g> SentenceGen<'g> {
    pub fn new(g: &'g Grammar) -> Self {
        let mut sg = SentenceGen { g, alpha: alphabet(g), skippables: vec![], near_skippables: vec![] };
        // skippable texts are sentences of the skip rules themselves; their proper prefixes are
        // texts that only look skippable
        let tapes: [&[u8]; 5] = [&[0; 24], &[255; 24], &[128, 40, 220, 90, 170, 10, 250, 60], &[70, 200, 130, 20, 240, 110, 180, 50], &[200, 100, 30, 160, 90, 250, 10, 140]];
        let mut skippables = vec![];
        let mut near = vec![];
        for rule in ["WHITESPACE", "COMMENT"] {
            if !g.has(rule) {
                continue;
            }
            for t in tapes {
                let mut tape = Tape::new(t);
                let s = sg.sentence(rule, &mut tape);
                if !s.is_empty() && s.chars().count() <= 12 {
                    let cs: Vec<char> = s.chars().collect();
                    if cs.len() >= 2 {
                        near.push(cs[..cs.len() - 1].iter().collect::<String>());
                        near.push(cs[..1].iter().collect::<String>());
                    }
                    skippables.push(s);
                }
            }
        }
        // an opener inside a comment (skippable as one comment only when matched atomically)
        let mut nested = vec![];
        for s in &skippables {
            let cs: Vec<char> = s.chars().collect();
            if cs.len() >= 4 {
                let open: String = cs[..2].iter().collect();
                nested.push(format!("{}{}", open, s));
                let close: String = cs[cs.len() - 2..].iter().collect();
                let inner: String = cs[..cs.len() - 2].iter().collect();
                nested.push(format!("{}{}{}", inner, s, close));
            }
        }
        nested.retain(|n| n.chars().count() <= 16);
        skippables.extend(nested);
        skippables.sort();
        skippables.dedup();
        near.sort();
        near.dedup();
        near.retain(|n| !skippables.contains(n));
        sg.skippables = skippables;
        sg.near_skippables = near;
        sg
    }

    /// Text that is (possibly) skippable, or only looks skippable.
    pub fn skippable(&self, t: &mut Tape) -> String {
        if self.skippables.is_empty() {
            return " ".to_string();
        }
        let mut s = self.skippables[t.below(self.skippables.len())].clone();
        if t.chance(1, 4) {
            s.push_str(&self.skippables[t.below(self.skippables.len())]);
        }
        s
    }
    pub fn looks_skippable(&self, t: &mut Tape) -> String {
        if self.near_skippables.is_empty() {
            return ["#c", "/*x", "/", "# ", " #", "/*x*"][t.below(6)].to_string();
        }
        self.near_skippables[t.below(self.near_skippables.len())].clone()
    }

    pub fn sentence(&self, rule: &str, t: &mut Tape) -> String {
        let mut w = Walk { t, out: String::new(), stack: vec![], budget: 60 };
        self.rule(rule, &mut w, 0, false);
        w.out
    }

    fn rule(&self, name: &str, w: &mut Walk, depth: usize, atomic: bool) {
        if let Some(r) = self.g.rule(name) {
            if w.budget == 0 || depth > 12 {
                return;
            }
            w.budget -= 1;
            let atomic = match r.kind {
                Kind::Atomic | Kind::Compound => true,
                Kind::NonAtomic => false,
                _ => atomic,
            } || name == "WHITESPACE"
                || name == "COMMENT";
            self.expr(&r.expr, w, depth + 1, atomic);
            return;
        }
        match name {
            "SOI" | "EOI" | "DROP" => {
                if name == "DROP" {
                    w.stack.pop();
                }
            }
            "PEEK" => {
                if let Some(s) = w.stack.last() {
                    w.out.push_str(&s.clone());
                }
            }
            "POP" => {
                if let Some(s) = w.stack.pop() {
                    w.out.push_str(&s);
                }
            }
            "PEEK_ALL" => {
                for s in w.stack.iter().rev() {
                    w.out.push_str(s);
                }
            }
            "POP_ALL" => {
                while let Some(s) = w.stack.pop() {
                    w.out.push_str(&s);
                }
            }
            other => {
                if let Some(s) = builtin_char(other, w.t, &self.alpha) {
                    w.out.push_str(&s);
                }
            }
        }
    }

    fn gap(&self, w: &mut Walk, atomic: bool) {
        // skippable text between elements: usually only where it is skipped, sometimes -
        // deliberately wrong - inside an atomic context
        if self.skippables.is_empty() {
            return;
        }
        let p = if atomic { w.t.chance(1, 12) } else { w.t.chance(1, 3) };
        if p {
            let s = self.skippable(w.t);
            w.out.push_str(&s);
        }
    }

    fn expr(&self, e: &Expr, w: &mut Walk, depth: usize, atomic: bool) {
        if w.out.len() > 200 {
            return;
        }
        match e {
            Expr::Str(s) => w.out.push_str(s),
            Expr::Insens(s) => {
                for c in s.chars() {
                    if c.is_ascii_alphabetic() && w.t.chance(1, 3) {
                        w.out.push(if c.is_ascii_lowercase() { c.to_ascii_uppercase() } else { c.to_ascii_lowercase() });
                    } else {
                        w.out.push(c);
                    }
                }
            }
            Expr::Range(a, z) => {
                let (lo, hi) = (*a as u32, *z as u32);
                if lo <= hi {
                    let span = hi - lo;
                    let k = [0, span, span / 2, 1.min(span)][w.t.below(4)];
                    w.out.push(char::from_u32(lo + k).unwrap_or(*a));
                } else {
                    w.out.push(*a);
                }
            }
            Expr::Ident(n) => self.rule(n, w, depth, atomic),
            Expr::PeekSlice(a, z) => {
                let len = w.stack.len();
                let lo = crate::interp::normalize_index(*a, len);
                let hi = match z {
                    Some(z) => crate::interp::normalize_index(*z, len),
                    None => Some(len),
                };
                if let (Some(lo), Some(hi)) = (lo, hi) {
                    if lo < hi {
                        for s in w.stack[lo..hi].to_vec() {
                            w.out.push_str(&s);
                        }
                    }
                }
            }
            Expr::PosPred(inner) => {
                // emit the operand's text at most as a hint for what follows; roll back the
                // simulated stack
                if w.t.chance(1, 4) {
                    let saved = w.stack.clone();
                    let keep = w.out.len();
                    self.expr(inner, w, depth + 1, atomic);
                    w.stack = saved;
                    if w.t.chance(1, 2) {
                        w.out.truncate(keep);
                    }
                }
            }
            Expr::NegPred(inner) => {
                if w.t.chance(1, 8) {
                    let saved = w.stack.clone();
                    self.expr(inner, w, depth + 1, atomic);
                    w.stack = saved;
                }
            }
            Expr::Seq(_, _) => {
                for (i, item) in e.seq_items().iter().enumerate() {
                    if i > 0 {
                        self.gap(w, atomic);
                    }
                    self.expr(item, w, depth + 1, atomic);
                }
            }
            Expr::Choice(_, _) => {
                let items = e.choice_items();
                let k = w.t.below(items.len());
                self.expr(items[k], w, depth + 1, atomic);
            }
            Expr::Opt(inner) => {
                if w.t.chance(1, 2) {
                    self.expr(inner, w, depth + 1, atomic);
                }
            }
            Expr::Rep(inner) => self.repeat(inner, w, depth, atomic, 0, 3),
            Expr::RepOnce(inner) => self.repeat(inner, w, depth, atomic, 1, 3),
            Expr::RepExact(inner, n) => self.counted(inner, w, depth, atomic, *n as usize, *n as usize),
            Expr::RepMin(inner, n) => self.counted(inner, w, depth, atomic, *n as usize, *n as usize + 2),
            Expr::RepMax(inner, m) => self.counted(inner, w, depth, atomic, 0, *m as usize),
            Expr::RepMinMax(inner, n, m) => self.counted(inner, w, depth, atomic, *n as usize, *m as usize),
            Expr::Push(inner) => {
                let from = w.out.len();
                self.expr(inner, w, depth + 1, atomic);
                let pushed = w.out[from..].to_string();
                w.stack.push(pushed);
            }
            Expr::Skip(strings) => {
                for _ in 0..w.t.below(4) {
                    let c = self.alpha[w.t.below(self.alpha.len())];
                    w.out.push(c);
                }
                let _ = strings;
            }
            Expr::RestoreOnErr(inner) => self.expr(inner, w, depth, atomic),
        }
    }

    fn repeat(&self, inner: &Expr, w: &mut Walk, depth: usize, atomic: bool, lo: usize, hi: usize) {
        let n = lo + w.t.below(hi - lo + 1);
        for i in 0..n {
            if i > 0 {
                self.gap(w, atomic);
            }
            self.expr(inner, w, depth + 1, atomic);
        }
    }

    fn counted(&self, inner: &Expr, w: &mut Walk, depth: usize, atomic: bool, lo: usize, hi: usize) {
        // mostly within the bounds, sometimes one less / one more
        let mut n = lo + w.t.below(hi - lo + 1);
        if w.t.chance(1, 6) {
            n = if w.t.chance(1, 2) { hi + 1 } else { lo.saturating_sub(1) };
        }
        for i in 0..n {
            if i > 0 {
                self.gap(w, atomic);
            }
            self.expr(inner, w, depth + 1, atomic);
        }
    }

    /// Tape-driven mutations of a sentence.
    pub fn mutate(&self, s: &str, t: &mut Tape) -> String {
        let mut cs: Vec<char> = s.chars().collect();
        let n = match t.below(8) {
            0..=3 => 0,
            4..=6 => 1,
            _ => 2,
        };
        for _ in 0..n {
            let at = t.below(cs.len() + 1);
            match t.below(9) {
                0 => {
                    if at < cs.len() {
                        cs.remove(at);
                    }
                }
                1 => cs.insert(at, self.alpha[t.below(self.alpha.len())]),
                2 => {
                    if at < cs.len() {
                        cs[at] = self.alpha[t.below(self.alpha.len())];
                    }
                }
                3 => {
                    if at + 1 < cs.len() {
                        cs.swap(at, at + 1);
                    }
                }
                4 => {
                    let len = t.below(4) + 1;
                    let end = (at + len).min(cs.len());
                    let slice: Vec<char> = cs[at.min(end)..end].to_vec();
                    for (k, c) in slice.into_iter().enumerate() {
                        cs.insert(at + k, c);
                    }
                }
                5 => cs.truncate(at),
                6 => {
                    if at < cs.len() && cs[at].is_ascii_alphabetic() {
                        cs[at] = if cs[at].is_ascii_lowercase() { cs[at].to_ascii_uppercase() } else { cs[at].to_ascii_lowercase() };
                    }
                }
                7 => {
                    if at < cs.len() {
                        cs[at] = ['é', '中', '😀', 'ß'][t.below(4)];
                    }
                }
                _ => {
                    let extra = if t.chance(1, 2) { self.skippable(t) } else { self.looks_skippable(t) };
                    for (k, c) in extra.chars().enumerate() {
                        cs.insert((at + k).min(cs.len()), c);
                    }
                }
            }
        }
        cs.into_iter().collect()
    }

    pub fn random_string(&self, t: &mut Tape) -> String {
        let n = t.below(12);
        (0..n).map(|_| self.alpha[t.below(self.alpha.len())]).collect()
    }

    /// The standard input mix: 75 % sentence + mutations, 10 % sentence + tail, 15 % random.
    pub fn input(&self, rule: &str, t: &mut Tape) -> String {
        match t.below(20) {
            0..=14 => {
                let s = self.sentence(rule, t);
                self.mutate(&s, t)
            }
            15 | 16 => {
                let mut s = self.sentence(rule, t);
                let tail = match t.below(4) {
                    0 => self.skippable(t),
                    1 => format!("{}{}", self.skippable(t), self.alpha[t.below(self.alpha.len())]),
                    2 => self.looks_skippable(t),
                    _ => self.random_string(t),
                };
                s.push_str(&tail);
                s
            }
            _ => self.random_string(t),
        }
    }
}
