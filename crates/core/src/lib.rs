pub mod common;
