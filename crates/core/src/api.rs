//! Dynamic interface between the property drivers and the statically typed generated parsers.
//! Every grammar module of the corpus implements `GrammarUnderTest`; the generated `match`
//! dispatches a rule index to generic helpers in `verif_support`.

use crate::interp::Tok;

#[derive(Clone, Copy, Debug, PartialEq, Eq, Hash)]
pub enum Entry {
    /// `<rule>::try_parse_partial(input)`
    ParsePartial,
    /// `<rule>::try_check_partial(input)`
    CheckPartial,
    /// `<rule>::try_parse(input)`
    ParseFull,
    /// `<rule>::try_check(input)`
    CheckFull,
    /// `Parser::try_parse::<rule>(&str)` through the `TypedParser` trait (only `&str`)
    ParserParse,
    /// `Parser::try_check::<rule>(&str)`
    ParserCheck,
    /// `try_parse_partial_with(input, &mut own_stack, &mut own_tracker)`
    ParsePartialWith,
    /// `try_check_partial_with(..)`
    CheckPartialWith,
    /// `try_parse_with(..)`: full parse with own stack and tracker
    ParseFullWith,
    /// `try_check_with(..)`
    CheckFullWith,
}
impl Entry {
    pub fn is_full(self) -> bool {
        matches!(self, Entry::ParseFull | Entry::CheckFull | Entry::ParserParse | Entry::ParserCheck | Entry::ParseFullWith | Entry::CheckFullWith)
    }
    pub fn is_check(self) -> bool {
        matches!(self, Entry::CheckPartial | Entry::CheckFull | Entry::ParserCheck | Entry::CheckPartialWith | Entry::CheckFullWith)
    }
    pub fn with(self) -> bool {
        matches!(self, Entry::ParsePartialWith | Entry::CheckPartialWith | Entry::ParseFullWith | Entry::CheckFullWith)
    }
}

#[derive(Clone, Copy, Debug, PartialEq, Eq, Hash)]
pub enum Form {
    /// the whole string as `&str`
    Str,
    /// `Position::new(host, a)`
    Pos(usize),
    /// `Span::new(host, a, b)`
    Span(usize, usize),
}
impl Form {
    pub fn bounds(self, len: usize) -> (usize, usize) {
        match self {
            Form::Str => (0, len),
            Form::Pos(a) => (a, len),
            Form::Span(a, b) => (a, b),
        }
    }
}

#[derive(Clone, Copy, Debug)]
pub struct Req {
    pub rule: usize,
    pub entry: Entry,
    pub form: Form,
    /// also collect Debug text and hash of the tree (costly)
    pub deep: bool,
}

#[derive(Clone, Debug, Default, PartialEq, Eq)]
pub struct ErrObs {
    /// `Display` of the `pest::error::Error`
    pub display: String,
    /// byte offset from `error.location`
    pub pos: usize,
    pub line_col: (usize, usize),
    /// `Debug` of the error (used for equality of check- and parse-side errors)
    pub debug: String,
    /// Display panicked
    pub display_panicked: bool,
}

#[derive(Clone, Debug, Default, PartialEq, Eq)]
pub struct TrackObs {
    pub pos: usize,
    /// (enclosing rule, expected rules, unexpected rules, special messages)
    pub attempts: Vec<(Option<String>, Vec<String>, Vec<String>, Vec<String>)>,
}

#[derive(Clone, Debug, Default, PartialEq, Eq)]
pub struct Obs {
    /// the call panicked (message); everything else is default then
    pub panicked: Option<String>,
    pub ok: bool,
    /// cursor returned by the partial entry points
    pub end: Option<usize>,
    /// `Pairs::self_or_children()` of the result, as thin tokens (parse entries, when ok)
    pub tokens: Option<Vec<Tok>>,
    /// every span reachable through the token API: (start, end, as_str().len())
    pub debug: Option<String>,
    pub hash: Option<u64>,
    pub err: Option<ErrObs>,
    /// final stack of the `_with` entries
    pub stack: Option<Vec<(usize, usize)>>,
    pub tracker: Option<TrackObs>,
    /// clone() == original, with equal hash and Debug (parse entries with `deep`)
    pub clone_ok: Option<bool>,
    /// spans were valid: in range, on boundaries, as_str() could be taken
    pub spans_ok: Option<bool>,
}

#[derive(Clone, Debug, Default, PartialEq, Eq)]
pub struct PestObs {
    pub panicked: Option<String>,
    pub ok: bool,
    /// end of the last top-level pair, or for silent entries of the wrapper pair
    pub end: Option<usize>,
    pub tokens: Vec<Tok>,
    pub err_pos: Option<usize>,
}

/// Result of comparing two parse results of the same rule type.
#[derive(Clone, Debug, Default, PartialEq, Eq)]
pub struct PairObs {
    pub panicked: Option<String>,
    pub both_ok: bool,
    pub eq: bool,
    pub ne: bool,
    pub debug_equal: bool,
    pub hash_equal: bool,
    pub debug_a: String,
    pub debug_b: String,
}

/// Traversal observations of one parsed non-silent rule (C15).
#[derive(Clone, Debug, Default, PartialEq, Eq)]
pub struct TreeObs {
    pub panicked: Option<String>,
    pub ok: bool,
    pub token: Option<Tok>,
    pub thin: Option<Tok>,
    pub children: Vec<Tok>,
    /// (rule, start, end, depth)
    pub pre_order: Vec<(String, usize, usize, usize)>,
    /// (rule, start, end, second argument passed to the callback)
    pub level_order: Vec<(String, usize, usize, usize)>,
    pub tree_text: Option<String>,
    pub tree_text2: Option<String>,
    /// matched text per token in pre-order (span.as_str())
    pub texts: Vec<String>,
}

#[derive(Clone, Debug)]
pub struct RuleInfo {
    pub name: &'static str,
    /// index for the typed dispatch (None: not dispatchable, e.g. dropped)
    pub silent: bool,
}

pub trait GrammarUnderTest: Sync {
    fn id(&self) -> &'static str;
    fn family(&self) -> &'static str;
    fn text(&self) -> &'static str;
    /// derive options the typed parser was generated with
    fn options(&self) -> &'static str;
    /// Position / Span input forms are compiled for this grammar
    fn forms(&self) -> bool;
    /// names of the rules that can be used as entry, in dispatch order (EOI last)
    fn rules(&self) -> &'static [&'static str];
    /// Run one entry point of the typed parser.
    fn typed(&self, req: Req, host: &str) -> Obs;
    /// Run the pest_derive parser on the whole string.
    fn pest(&self, rule: usize, input: &str) -> PestObs;
    /// Parse two (sub-)inputs of the *same* host object and compare the trees.
    fn typed_pair(&self, rule: usize, host: &str, a: Form, b: Form) -> PairObs;
    /// Traversal helpers (non-silent rules only; `ok=false, panicked=None` otherwise).
    fn typed_tree(&self, rule: usize, host: &str) -> TreeObs;
    /// Extra, grammar-specific probes (getters C16, accessors C17); name -> rendered result
    fn probe(&self, _name: &str, _rule: usize, _host: &str) -> Option<String> {
        None
    }
}
