//! C06 — stack operations behave as pest specifies and fail gracefully.

use super::p01;
use crate::api::*;
use crate::common::show;
use crate::drive::*;
use crate::interp::{self, Cfg};
use serde_json::{json, Value};

pub const RULE: &str = "bounded-exhaustive: slice grammar with one rule per PEEK[a..b], PEEK[a..], PEEK[..b] (a,b in -3..3 quick, -6..6 thorough), each ${ (PUSH(item) ~ \",\")* ~ \";\" ~ PEEK[..] ~ \"!\" } x all stacks of depth 0..4 over items {a,b,ab} (121) x tails {the expected text, every single-character mutation of it, every proper prefix, one extra character}; and the grammar of PEEK, POP, DROP, PEEK_ALL, POP_ALL, PUSH(e with inner skips) in normal, !, @ and $ context with WHITESPACE defined x all stacks of depth 0..3 x all tails up to length 4 over {a,b,!,blank} (empty-stack paths included). Oracles: a list-slicing model written from the statement (slice rules), the reference interpreter, and pest where pest is defined; verdict, cursor and final stack are compared and no entry point may panic. Non-trivial = stack depth >=1 and a non-empty slice / a stack read, or an out-of-range or empty-stack path; distinct by (rule, input).";

/// The statement's slice semantics: entries a..b bottom to top, negative indices from the top,
/// out of range fails, empty range succeeds without consuming.
fn model_slice(items: &[String], a: i32, b: Option<i32>) -> Option<String> {
    let n = items.len() as i32;
    let norm = |i: i32| -> Option<i32> {
        if i >= 0 && i <= n {
            Some(i)
        } else if i < 0 && n + i >= 0 {
            Some(n + i)
        } else {
            None
        }
    };
    let lo = norm(a)?;
    let hi = match b {
        Some(b) => norm(b)?,
        None => n,
    };
    if lo >= hi {
        return Some(String::new());
    }
    Some(items[lo as usize..hi as usize].concat())
}

fn parse_slice_rule(name: &str) -> Option<(i32, Option<i32>)> {
    // s_<a>_<b>, s_<a>_open, s_to_<b>; numbers as p3 / m2
    let num = |s: &str| -> Option<i32> {
        let v: i32 = s[1..].parse().ok()?;
        Some(if s.starts_with('m') { -v } else { v })
    };
    let parts: Vec<&str> = name.split('_').collect();
    match parts.as_slice() {
        ["s", "to", b] => Some((0, Some(num(b)?))),
        ["s", a, "open"] => Some((num(a)?, None)),
        ["s", a, b] => Some((num(a)?, Some(num(b)?))),
        _ => None,
    }
}

fn all_stacks(max_depth: usize) -> Vec<Vec<String>> {
    let items = ["a", "b", "ab"];
    let mut out = vec![vec![]];
    let mut frontier: Vec<Vec<String>> = vec![vec![]];
    for _ in 0..max_depth {
        let mut next = vec![];
        for s in &frontier {
            for it in items {
                let mut t = s.clone();
                t.push(it.to_string());
                next.push(t);
            }
        }
        out.extend(next.iter().cloned());
        frontier = next;
    }
    out
}

fn tails_for(expected: &str) -> Vec<String> {
    let mut v = vec![expected.to_string()];
    let cs: Vec<char> = expected.chars().collect();
    for i in 0..cs.len() {
        v.push(cs[..i].iter().collect()); // proper prefixes
        let mut m = cs.clone();
        m[i] = if m[i] == 'a' { 'b' } else { 'a' };
        v.push(m.into_iter().collect());
    }
    v.push(format!("{}a", expected));
    v.push(format!("{}b", expected));
    v.sort();
    v.dedup();
    v
}

/// Compare one input on one rule with every oracle.  `model`: expected by the slicing model.
fn check(ctx: &mut Ctx, gi: &GInfo, rule: usize, input: &str, model: Option<Option<usize>>, nontrivial: bool, class: &str) -> CaseResult {
    ctx.ev.eval();
    ctx.progress.fetch_add(1, std::sync::atomic::Ordering::Relaxed);
    let name = gi.rules[rule].0.clone();
    let exp = match p01::expected(ctx, gi, rule, input) {
        Some(e) => e,
        None => return CaseResult::Ok,
    };
    let r_verdict = exp.full.verdict().unwrap();
    if let Some(m) = model {
        if m != r_verdict {
            ctx.ev.count("model_disagreement.slicing_model_vs_reference");
            return violation(ctx, gi, rule, input, format!("harness: slicing model {:?} and reference interpreter {:?} disagree", m, r_verdict), json!({"harness": true}));
        }
    }
    let want = model.unwrap_or(exp.verdict);
    if exp.oracle == "pest" && exp.verdict != want {
        ctx.ev.count("model_disagreement.pest_vs_slicing_model");
    }
    for entry in [Entry::ParsePartialWith, Entry::CheckPartialWith, Entry::ParsePartial] {
        let t = gi.g.typed(Req { rule, entry, form: Form::Str, deep: false }, input);
        if let Some(p) = &t.panicked {
            return violation(ctx, gi, rule, input, format!("{:?} panicked: {}", entry, p), json!({}));
        }
        let got = if t.ok { t.end } else { None };
        if got != want {
            if let Some(k) = p01::classify(ctx, gi, rule, input, got) {
                ctx.ev.count(&format!("excluded.{}", k));
                return CaseResult::Known(k);
            }
            return violation(ctx, gi, rule, input, format!("{:?}: typed {:?}, expected {:?} (oracle {})", entry, got, want, if model.is_some() { "slicing model + reference" } else { exp.oracle }), json!({"error": t.err.map(|e| e.display)}));
        }
        if want.is_some() && entry.with() && t.stack.as_ref() != Some(&exp.full.stack) {
            return violation(ctx, gi, rule, input, format!("{:?}: final stack {:?}, expected {:?}", entry, t.stack, exp.full.stack), json!({}));
        }
    }
    if nontrivial {
        ctx.ev.nontrivial(crate::common::fnv(format!("{}\u{0}{}", name, input).as_bytes()));
        ctx.ev.sample(class, json!({"rule": name, "input": show(input), "verdict": format!("{:?}", want), "oracle_for_pest_part": exp.oracle}));
    }
    ctx.ev.count(&format!("class.{}", class));
    CaseResult::Ok
}

pub fn run(world: &World, ctx: &mut Ctx) -> Option<Value> {
    ctx.ev.rule = RULE.to_string();
    if let Some(v) = run_reproducers(world, ctx, |c, g, r, i| check(c, g, r, i, None, false, "reproducer")) {
        return Some(v);
    }
    // part 1: slices
    if let Some(gi) = world.grammars.iter().find(|g| g.g.id() == "slice") {
        let stacks = all_stacks(4);
        ctx.ev.extra.insert("slice_rules".into(), json!(gi.rules.len()));
        ctx.ev.extra.insert("stacks".into(), json!(stacks.len()));
        for rule in 0..gi.rules.len() {
            let (a, b) = match parse_slice_rule(&gi.rules[rule].0) {
                Some(x) => x,
                None => continue,
            };
            for st in &stacks {
                let head: String = st.iter().map(|s| format!("{},", s)).collect::<String>() + ";";
                let m = model_slice(st, a, b);
                let tails = match &m {
                    Some(text) => tails_for(text),
                    None => vec![String::new(), "a".to_string(), st.concat()],
                };
                for tail in tails {
                    let input = format!("{}{}!", head, tail);
                    let want = match &m {
                        Some(text) if *text == tail => Some(input.len()),
                        _ => None,
                    };
                    let (nontrivial, class) = match &m {
                        None => (true, "slice_out_of_range"),
                        Some(t) if t.is_empty() => (!st.is_empty(), "empty_slice"),
                        Some(_) => (true, "non_empty_slice"),
                    };
                    match check(ctx, gi, rule, &input, Some(want), nontrivial, class) {
                        CaseResult::Violation(v) => return Some(v),
                        CaseResult::Known(id) => ctx.ev.known_finding(id),
                        CaseResult::Ok => {}
                    }
                }
            }
            ctx.progress.fetch_add(1, std::sync::atomic::Ordering::Relaxed);
        }
    }
    // part 2: the stack built-ins in every context
    if let Some(gi) = world.grammars.iter().find(|g| g.g.id() == "stackbuiltin") {
        let stacks = all_stacks(3);
        let alpha = ['a', 'b', '!', ' '];
        let mut tails = vec![String::new()];
        let mut frontier = vec![String::new()];
        for _ in 0..4 {
            let mut next = vec![];
            for s in &frontier {
                for c in alpha {
                    let mut t = s.clone();
                    t.push(c);
                    next.push(t);
                }
            }
            tails.extend(next.iter().cloned());
            frontier = next;
        }
        ctx.ev.extra.insert("builtin_tails".into(), json!(tails.len()));
        for rule in 0..gi.rules.len() {
            let name = gi.rules[rule].0.clone();
            if ["WHITESPACE", "item", "pushes", "EOI"].contains(&name.as_str()) {
                continue;
            }
            let with_pushes = !(name.starts_with("pushskip") || name.starts_with("dropempty"));
            for st in &stacks {
                if !with_pushes && !st.is_empty() {
                    continue;
                }
                let head: String = if name.starts_with("pushskip") {
                    String::new()
                } else if name.starts_with("dropempty") {
                    "d".to_string()
                } else {
                    st.iter().map(|s| format!("{},", s)).collect::<String>() + ";"
                };
                for tail in &tails {
                    let input = format!("{}{}", head, tail);
                    let class = if st.is_empty() { "builtin_on_empty_stack" } else { "builtin_on_stack" };
                    match check(ctx, gi, rule, &input, None, true, class) {
                        CaseResult::Violation(v) => return Some(v),
                        CaseResult::Known(id) => ctx.ev.known_finding(id),
                        CaseResult::Ok => {}
                    }
                }
                if name.starts_with("pushskip") {
                    for extra in ["ab;ab!", "a b;a b!", "a b;ab!", "a  b;a  b!", "ab;a b!", "a b ;a b!"] {
                        match check(ctx, gi, rule, extra, None, true, "push_with_inner_skip") {
                            CaseResult::Violation(v) => return Some(v),
                            CaseResult::Known(id) => ctx.ev.known_finding(id),
                            CaseResult::Ok => {}
                        }
                    }
                }
            }
            ctx.progress.fetch_add(1, std::sync::atomic::Ordering::Relaxed);
        }
    }
    ctx.ev.exhaustive = Some(true);
    None
}

pub fn replay(ctx: &mut Ctx, gi: &GInfo, rule: usize, doc: &Value) -> CaseResult {
    let input = doc["input"].as_str().unwrap_or("");
    let _ = interp::run(gi.ir, &Cfg::default(), &gi.rules[rule].0, input, 0, input.len());
    check(ctx, gi, rule, input, None, false, "replay")
}
