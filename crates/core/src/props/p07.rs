//! C07 — atomicity is inherited and implicit skipping applied exactly as in pest.

use super::{p01, p02};
use crate::api::*;
use crate::common::{show, Rng};
use crate::drive::*;
use crate::interp::{render_toks, token_forest, Emission};
use crate::ir::Kind;
use crate::sentence::Tape;
use serde_json::{json, Value};

pub const RULE: &str = "cases: the kind-nesting grammar family - for each of the five rule kinds at each level (depth 2 quick, depth 3 thorough) a sequence rule and a repetition rule around leaves \"x\" ~ \"y\" and \"x\"+, in four grammars for the combinations of WHITESPACE (blank) / COMMENT (#...#) being defined - x every sentence of the rule (1 and 2 iterations) with skippable text inserted at every subset of the gaps between terminals, before the first and after the last terminal (all 2^(n+1) subsets when n+1<=10, 1024 seeded subsets above; the inserted text alternates between the skippable kinds the grammar defines and, where none is defined, a blank). Oracle: pest_derive's parser (no stack operations: pest is defined everywhere) for verdict, cursor and the spans of all rule tokens (after the documented pruning); the reference interpreter as a second opinion (disagreements with pest are counted as model errors, never reported). Non-trivial = the input holds skippable text at >=1 gap; distinct by (grammar, rule, input).";

fn base_sentences(gi: &GInfo, rule: usize) -> Vec<String> {
    let tapes: [&[u8]; 4] = [&[0; 32], &[128; 32], &[90, 200, 30, 250, 10, 160, 70, 220, 130, 40], &[255; 32]];
    let mut v = vec![];
    for t in tapes {
        let mut tape = Tape::new(t);
        let s = gi.sg.sentence(&gi.rules[rule].0, &mut tape);
        let s: String = s.chars().filter(|c| !matches!(c, ' ' | '#' | '\t' | '\n' | 'c' | '/' | '*' | '\\')).collect();
        if !s.is_empty() && s.chars().count() <= 24 && !v.contains(&s) {
            v.push(s);
        }
    }
    v
}

pub fn check_input(ctx: &mut Ctx, gi: &GInfo, rule: usize, input: &str) -> CaseResult {
    ctx.ev.eval();
    let name = gi.rules[rule].0.clone();
    let p = gi.g.pest(rule, input);
    if p.panicked.is_some() {
        ctx.ev.count("excluded.pest_panicked");
        return CaseResult::Ok;
    }
    let want = if p.ok { p.end } else { None };
    let t = gi.g.typed(Req { rule, entry: Entry::ParsePartial, form: Form::Str, deep: false }, input);
    if let Some(pm) = &t.panicked {
        return violation(ctx, gi, rule, input, format!("typed parser panicked: {}", pm), json!({}));
    }
    let got = if t.ok { t.end } else { None };
    // the check-only path must stop where pest stops too
    let c = gi.g.typed(Req { rule, entry: Entry::CheckPartial, form: Form::Str, deep: false }, input);
    let got_check = if c.ok { c.end } else { None };
    if c.panicked.is_none() && got_check != got {
        return violation(ctx, gi, rule, input, format!("try_check_partial stops at {:?}, try_parse_partial at {:?} (pest: {:?})", got_check, got, want), json!({}));
    }
    // second opinion
    let r = crate::interp::run(gi.ir, &crate::interp::Cfg::default(), &name, input, 0, input.len());
    if r.verdict() != Some(want) {
        ctx.ev.count("model_disagreement.reference_vs_pest");
    }
    if got != want {
        if let Some(k) = p01::classify(ctx, gi, rule, input, got) {
            ctx.ev.count(&format!("excluded.{}", k));
            return CaseResult::Known(k);
        }
        return violation(ctx, gi, rule, input, format!("typed {:?}, pest {:?}", got, want), json!({}));
    }
    if want.is_some() {
        let expected = p02::prune(gi.ir, &p.tokens);
        let typed = t.tokens.clone().unwrap_or_default();
        if typed != expected {
            if ctx.open("K3") {
                if let Some((_, d)) = r.matched() {
                    if typed == token_forest(gi.ir, d, Emission::Typed) && crate::interp::strip_skip_rule_bodies(&typed) == crate::interp::strip_skip_rule_bodies(&expected) {
                        return CaseResult::Known("K3");
                    }
                }
            }
            return violation(ctx, gi, rule, input, format!("rule token spans differ: typed {} ; pest {}", render_toks(&typed), render_toks(&expected)), json!({}));
        }
    }
    CaseResult::Ok
}

fn kinds_of(name: &str) -> Option<(char, char)> {
    // m_<k1><k2>_seq / t_<k0><k1><k2>_rep: last two letters are caller and callee kind
    let mid = name.split('_').nth(1)?;
    let cs: Vec<char> = mid.chars().collect();
    if (name.starts_with("m_") || name.starts_with("t_")) && cs.len() >= 2 {
        Some((cs[cs.len() - 2], cs[cs.len() - 1]))
    } else {
        None
    }
}

pub fn run(world: &World, ctx: &mut Ctx) -> Option<Value> {
    ctx.ev.rule = RULE.to_string();
    if let Some(v) = run_reproducers(world, ctx, check_input) {
        return Some(v);
    }
    let mut pairs_seen = std::collections::BTreeSet::new();
    let mut rng = Rng::new(crate::common::sub_seed(ctx.seed, "C07"));
    let grammars: Vec<&GInfo> = world.grammars.iter().filter(|g| g.g.family() == "atomicity").collect();
    ctx.ev.extra.insert("grammars".into(), json!(grammars.len()));
    let budget_per_sentence = ctx.tier.pick(1024usize, 4096usize);
    for gi in grammars {
        let block = gi.g.text().contains("\"/*\"");
        let skips: Vec<&str> = match (gi.ir.has_ws(), gi.ir.has_comment(), block) {
            (true, true, false) => vec![" ", "#c#", " #c# "],
            (true, false, _) => vec![" ", "  "],
            (false, true, false) => vec!["#c#", "##"],
            // block comments: an opener inside a comment must not nest
            (true, true, true) => vec![" ", "/*c*/", "/*/*c*/", " /* /* */ "],
            (false, true, true) => vec!["/*c*/", "/*/*c*/", "/**/"],
            (false, false, _) => vec![" "],
        };
        for rule in 0..gi.rules.len() {
            let (name, kind) = gi.rules[rule].clone();
            if name == "WHITESPACE" || name == "COMMENT" || name == "EOI" {
                continue;
            }
            if let Some(k) = kinds_of(&name) {
                pairs_seen.insert(k);
            }
            for base in base_sentences(gi, rule) {
                let cs: Vec<char> = base.chars().collect();
                let gaps = cs.len() + 1;
                let exhaustive = gaps <= 10;
                let total: u64 = if exhaustive { 1u64 << gaps } else { budget_per_sentence as u64 };
                for k in 0..total {
                    let mask: u64 = if exhaustive { k } else { rng.next_u64() & rng.next_u64() };
                    let mut input = String::new();
                    let mut with_skip = false;
                    for g in 0..gaps {
                        if mask >> (g % 64) & 1 == 1 {
                            input.push_str(skips[(g + k as usize) % skips.len()]);
                            with_skip = true;
                        }
                        if g < cs.len() {
                            input.push(cs[g]);
                        }
                    }
                    ctx.progress.fetch_add(1, std::sync::atomic::Ordering::Relaxed);
                    match check_input(ctx, gi, rule, &input) {
                        CaseResult::Violation(v) => return Some(v),
                        CaseResult::Known(id) => ctx.ev.known_finding(id),
                        CaseResult::Ok => {}
                    }
                    if with_skip {
                        ctx.ev.nontrivial(hash_case(gi, rule, &input, 7));
                        let class = format!("entry_{:?}", kind);
                        ctx.ev.count(&format!("class.{}", class));
                        ctx.ev.sample(&class, json!({"grammar": gi.g.id(), "rule": name, "input": show(&input)}));
                    }
                }
                if exhaustive {
                    ctx.ev.count("sentences_with_all_gap_subsets");
                } else {
                    ctx.ev.count("sentences_with_sampled_gap_subsets");
                }
            }
        }
    }
    let _ = Kind::Normal;
    ctx.ev.extra.insert("caller_callee_kind_pairs_covered".into(), json!(pairs_seen.len()));
    ctx.ev.extra.insert("caller_callee_kind_pairs".into(), json!(pairs_seen.iter().map(|(a, b)| format!("{}{}", a, b)).collect::<Vec<_>>()));
    None
}
