//! C16 — the generated getters return exactly the referenced sub-nodes that matched.

use crate::common::show;
use crate::drive::*;
use crate::getters::{eval, getter_list, gtype, V};
use crate::interp::{self, Cfg, NK};
use serde_json::{json, Value};

pub const RULE: &str = "cases: getter family compiled with emit_rule_reference - three hand-written grammars (mentions of user rules, silent rules and built-ins under nested options, choices, repetitions, predicates and PUSH, repeated mentions, negative predicates) and seeded generated ones - x every rule with content x every name its expression mentions outside a negative predicate x accepted grammar-derived inputs. The harness flattens r.x() through a trait over &T / Option / Vec / tuples, rendering each leaf as rule name, span and its token subtree (character / kind / span for built-ins). Oracle: the shape rebuilt from the documented rules (repetition -> Vec, optional and choice -> Option with nested options flattened, several mentions -> tuple in mention order) evaluated along the reference derivation of r's own expression on the optimised AST - the mentions r itself matched, in expression order, positive predicates included, not those reached through other rules. A grammar of the family whose getters do not compile is a violation. Non-trivial = x is mentioned >=2 times or under a repetition / option / choice, and >=1 instance matched; distinct by (grammar, rule, getter, input).";

pub fn check_input(ctx: &mut Ctx, gi: &GInfo, rule: usize, input: &str) -> CaseResult {
    let name = gi.rules[rule].0.clone();
    let optimised = !gi.g.options().contains("pest_optimizer = false");
    let getters: Vec<String> = crate::getters::getter_list_for(gi.ir, optimised).into_iter().filter(|(i, _)| *i == rule).map(|(_, n)| n).collect();
    if getters.is_empty() {
        return CaseResult::Ok;
    }
    // without the optimizer the node types follow the raw AST, `e+` is the runtime's own
    // at-least-once repetition (finding K6 describes the behavioural side of that)
    let r = interp::run(gi.ir, &Cfg { optimised, native_plus: !optimised, ..Cfg::default() }, &name, input, 0, input.len());
    let (_, deriv) = match r.matched() {
        Some(m) => m,
        None => {
            ctx.ev.count("skipped.rejected_or_undefined");
            return CaseResult::Ok;
        }
    };
    // the typed parser must agree on acceptance, otherwise this is C01's business
    let t = gi.g.typed(crate::api::Req { rule, entry: crate::api::Entry::ParsePartial, form: crate::api::Form::Str, deep: false }, input);
    if !t.ok || t.end != Some(deriv.end) {
        ctx.ev.count("skipped.verdict_is_c01s_business");
        return CaseResult::Ok;
    }
    let body = match &deriv.kind {
        NK::Rule { .. } => &deriv.kids[0],
        _ => return CaseResult::Ok,
    };
    let expr = if optimised { &gi.ir.opt[rule].expr } else { &gi.ir.raw[rule].expr };
    for x in getters {
        ctx.ev.eval();
        let ty = match gtype(expr, &x) {
            Some(t) => t,
            None => continue,
        };
        let want: V = eval(&ty, body, gi.ir, input);
        let mut want_s = String::new();
        want.render(&mut want_s);
        let got = gi.g.probe(&format!("getter:{}", x), rule, input);
        if got.as_deref() != Some(want_s.as_str()) {
            // K1: skip rules are not forced atomic, so their own derivation (as entry point or
            // referenced explicitly) differs; accepted only if the K1 model predicts exactly this
            if ctx.open("K1") && (gi.ir.has_ws() || gi.ir.has_comment()) {
                let k1 = interp::run(gi.ir, &Cfg { optimised, native_plus: !optimised, k1: true, ..Cfg::default() }, &name, input, 0, input.len());
                if let Some((_, d)) = k1.matched() {
                    if let NK::Rule { .. } = d.kind {
                        let mut alt = String::new();
                        eval(&ty, &d.kids[0], gi.ir, input).render(&mut alt);
                        if got.as_deref() == Some(alt.as_str()) && alt != want_s {
                            ctx.ev.count("excluded.K1");
                            return CaseResult::Known("K1");
                        }
                    }
                }
            }
            // K3/K1: token subtrees inside skip rules
            if ctx.open("K3") && (gi.ir.has_ws() || gi.ir.has_comment()) && got.as_ref().map(|g| strip_ws(g) == strip_ws(&want_s)).unwrap_or(false) {
                return CaseResult::Known("K3");
            }
            return violation(ctx, gi, rule, input, format!("{}.{}() flattens to {:?}, expected {:?}", name, x, got, want_s), json!({"getter": x, "shape": format!("{:?}", ty)}));
        }
        let structured = !matches!(ty, crate::getters::T::Rule) && !matches!(&ty, crate::getters::T::SequenceI(_, i) if **i == crate::getters::T::Rule);
        if structured && want.leaves() >= 1 {
            ctx.ev.nontrivial(hash_case(gi, rule, input, crate::common::fnv(x.as_bytes())));
            let class = match &ty {
                crate::getters::T::Tuple(_) => "several_mentions",
                crate::getters::T::Contents(_) => "under_repetition",
                _ => "under_option_or_choice",
            };
            ctx.ev.count(&format!("class.{}", class));
            ctx.ev.sample(class, json!({"grammar": gi.g.id(), "rule": name, "getter": x, "expression": crate::ir::print_expr(expr), "input": show(input), "value": want_s}));
        } else {
            ctx.ev.count("class.plain_or_nothing_matched");
        }
    }
    CaseResult::Ok
}

fn strip_ws(s: &str) -> String {
    // drop token subtrees below WHITESPACE / COMMENT tokens: "WHITESPACE(1,2)[...]" -> "WHITESPACE(1,2)"
    let mut out = String::new();
    let mut rest = s;
    while let Some(p) = rest.find("WHITESPACE(").or_else(|| rest.find("COMMENT(")) {
        let close = rest[p..].find(')').map(|c| p + c + 1).unwrap_or(rest.len());
        out.push_str(&rest[..close]);
        rest = &rest[close..];
        if rest.starts_with('[') {
            let mut depth = 0;
            let mut end = 0;
            for (i, c) in rest.char_indices() {
                if c == '[' {
                    depth += 1;
                } else if c == ']' {
                    depth -= 1;
                    if depth == 0 {
                        end = i + 1;
                        break;
                    }
                }
            }
            rest = &rest[end..];
        }
    }
    out.push_str(rest);
    out
}

pub fn case(ctx: &mut Ctx, gi: &GInfo, rule: usize, tape: &[u8]) -> CaseResult {
    let (input, _) = input_from(gi, rule, tape);
    check_input(ctx, gi, rule, &input)
}

pub fn run(world: &World, ctx: &mut Ctx) -> Option<Value> {
    ctx.ev.rule = RULE.to_string();
    // every grammar of the family must have compiled
    let corpus: Value = std::fs::read_to_string(crate::common::work_dir().join("corpus.json")).ok().and_then(|t| serde_json::from_str(&t).ok()).unwrap_or(Value::Null);
    for s in corpus["specs"].as_array().cloned().unwrap_or_default() {
        if s["family"] == "getter" {
            let id = s["id"].as_str().unwrap_or("");
            if !world.grammars.iter().any(|g| g.g.id() == id) && ctx.only.is_none() {
                return Some(json!({"property": "C16", "kind": "compile", "grammar": s, "rule": "", "input": "", "why": format!("the getters generated for grammar {} do not compile (or the harness' flattening does not fit their types)", id)}));
            }
        }
    }
    let pairs = super::pairs(world, &["getter"]);
    let total = ctx.tier.pick(150_000u64, 2_000_000u64);
    let n = super::per_pair(total, pairs.len(), 50, 40_000);
    ctx.ev.extra.insert("grammar_rule_pairs".into(), json!(pairs.len()));
    ctx.ev.extra.insert("cases_per_pair".into(), json!(n));
    let mut getters = 0;
    for gi in world.grammars.iter().filter(|g| g.g.family() == "getter") {
        getters += crate::getters::getter_list_for(gi.ir, !gi.g.options().contains("pest_optimizer = false")).len();
    }
    ctx.ev.extra.insert("getters_probed".into(), json!(getters));
    for (gi, rule) in pairs {
        if let Some(v) = tape_cases(ctx, gi, rule, n, 56, case) {
            return Some(v);
        }
    }
    None
}
