//! C15 — the traversal helpers enumerate exactly the tokens of the pair tree.

use crate::api::*;
use crate::common::show;
use crate::drive::*;
use crate::interp::Tok;
use serde_json::{json, Value};

pub const RULE: &str = "cases: every non-silent rule that carries content (normal, $, !) of every corpus grammar x accepted inputs (grammar-derived sentences, mutations kept when still accepted). From as_token() - tied to pest by C02 - the expected pre-order list with depths, level-order list, format_as_tree text (four spaces per level, matched text on leaves) are computed by plain recursion and compared with iterate_pre_order, iterate_level_order, format_as_tree and write_tree_to; children() must be the root's children, as_thin_token() must carry the same rules and offsets, spans must be nested in their parent and ordered among siblings. Non-trivial = the tree has >=3 tokens and depth >=2; distinct by (grammar, rule, input).";

fn pre(t: &Tok, depth: usize, out: &mut Vec<(String, usize, usize, usize)>) {
    out.push((t.rule.clone(), t.start, t.end, depth));
    for k in &t.kids {
        pre(k, depth + 1, out);
    }
}

fn render(t: &Tok, depth: usize, input: &str, out: &mut String) {
    if t.kids.is_empty() {
        out.push_str(&format!("{}{} {:?}\n", "    ".repeat(depth), t.rule, &input[t.start..t.end]));
    } else {
        out.push_str(&format!("{}{}\n", "    ".repeat(depth), t.rule));
    }
    for k in &t.kids {
        render(k, depth + 1, input, out);
    }
}

fn nested(t: &Tok) -> bool {
    let mut prev = t.start;
    for k in &t.kids {
        if !(t.start <= k.start && k.start <= k.end && k.end <= t.end && prev <= k.start) {
            return false;
        }
        prev = k.end;
        if !nested(k) {
            return false;
        }
    }
    true
}

pub fn check_input(ctx: &mut Ctx, gi: &GInfo, rule: usize, input: &str) -> CaseResult {
    ctx.ev.eval();
    let name = gi.rules[rule].0.clone();
    let r = crate::interp::run(gi.ir, &crate::interp::Cfg::default(), &name, input, 0, input.len());
    if !r.defined() {
        ctx.ev.count("excluded.not_well_founded_or_budget");
        return CaseResult::Ok;
    }
    let o = gi.g.typed_tree(rule, input);
    if let Some(p) = &o.panicked {
        return violation(ctx, gi, rule, input, format!("traversal panicked: {}", p), json!({}));
    }
    if !o.ok {
        ctx.ev.count("skipped.rejected_input");
        return CaseResult::Ok;
    }
    let root = match &o.token {
        Some(t) => t.clone(),
        None => return violation(ctx, gi, rule, input, "no token".into(), json!({})),
    };
    let bad = |why: String| violation(ctx, gi, rule, input, why, json!({"token": root.render()}));
    if o.thin.as_ref() != Some(&root) {
        return bad(format!("as_thin_token {:?} differs from as_token", o.thin.as_ref().map(|t| t.render())));
    }
    if o.children != root.kids {
        return bad("children() are not the root's child tokens".into());
    }
    // cross-check with the Pairs view used by C02
    let t = gi.g.typed(Req { rule, entry: Entry::ParsePartial, form: Form::Str, deep: false }, input);
    if t.tokens.as_ref().map(|v| v.as_slice()) != Some(std::slice::from_ref(&root)) {
        return bad("as_token() differs from Pairs::self_or_children()".into());
    }
    let mut want_pre = vec![];
    pre(&root, 0, &mut want_pre);
    if o.pre_order != want_pre {
        return bad(format!("iterate_pre_order visits {:?}, expected {:?}", o.pre_order, want_pre));
    }
    // level order: every token once, level by level, left to right
    let mut want_lvl: Vec<(String, usize, usize)> = vec![];
    let mut level: Vec<&Tok> = vec![&root];
    while !level.is_empty() {
        let mut next = vec![];
        for t in &level {
            want_lvl.push((t.rule.clone(), t.start, t.end));
            next.extend(t.kids.iter());
        }
        level = next;
    }
    let got_lvl: Vec<(String, usize, usize)> = o.level_order.iter().map(|(r, a, b, _)| (r.clone(), *a, *b)).collect();
    if got_lvl != want_lvl {
        return bad(format!("iterate_level_order visits {:?}, expected {:?}", got_lvl, want_lvl));
    }
    let mut want_text = String::new();
    render(&root, 0, input, &mut want_text);
    if o.tree_text.as_deref() != Some(want_text.as_str()) {
        return bad(format!("format_as_tree gives {:?}, expected {:?}", o.tree_text, want_text));
    }
    if o.tree_text2 != o.tree_text {
        return bad("write_tree_to differs from format_as_tree".into());
    }
    let texts: Vec<String> = want_pre.iter().map(|(_, a, b, _)| input[*a..*b].to_string()).collect();
    if o.texts != texts {
        return bad("span texts differ from the input slices".into());
    }
    if !nested(&root) {
        return bad("spans are not nested in their parent / ordered among siblings".into());
    }
    let (n, d) = (root.count(), root.depth());
    if n >= 3 && d >= 2 {
        ctx.ev.nontrivial(hash_case(gi, rule, input, 15));
        let class = if d >= 4 { "deep_tree" } else if root.kids.len() >= 4 { "wide_level" } else { "tree" };
        ctx.ev.count(&format!("class.{}", class));
        ctx.ev.sample(class, json!({"grammar": gi.g.id(), "rule": name, "input": show(input), "tokens": n, "depth": d, "tree": root.render()}));
    } else {
        ctx.ev.count("class.small_tree");
    }
    CaseResult::Ok
}

pub fn case(ctx: &mut Ctx, gi: &GInfo, rule: usize, tape: &[u8]) -> CaseResult {
    let (input, _) = input_from(gi, rule, tape);
    check_input(ctx, gi, rule, &input)
}

pub fn run(world: &World, ctx: &mut Ctx) -> Option<Value> {
    ctx.ev.rule = RULE.to_string();
    use crate::ir::Kind;
    let pairs: Vec<_> = super::pairs(world, &[]).into_iter().filter(|(g, r)| matches!(g.rules[*r].1, Kind::Normal | Kind::Compound | Kind::NonAtomic) && g.rules[*r].0 != "EOI").collect();
    let total = ctx.tier.pick(200_000u64, 3_000_000u64);
    let n = super::per_pair(total, pairs.len(), 30, 20_000);
    ctx.ev.extra.insert("grammar_rule_pairs".into(), json!(pairs.len()));
    ctx.ev.extra.insert("cases_per_pair".into(), json!(n));
    for (gi, rule) in pairs {
        if let Some(v) = tape_cases(ctx, gi, rule, n, 56, case) {
            return Some(v);
        }
    }
    None
}
