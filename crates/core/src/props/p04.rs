//! C04 — a full parse succeeds only when the whole input is consumed.

use crate::api::*;
use crate::common::show;
use crate::drive::*;
use crate::interp::{Cfg, Interp};
use crate::ir::Kind;
use crate::sentence::Tape;
use serde_json::{json, Value};

pub const RULE: &str = "cases: every rule (every rule kind) of every corpus grammar as entry x inputs built as sentence + tail, tail in {empty, skippable text, skippable text + junk, text that only looks skippable (unterminated comment, comment opener), junk}, plus the standard mutated inputs. Oracle: with p = offset of try_parse_partial, try_parse / try_check / TypedParser::try_parse / TypedParser::try_check must return Ok exactly when the partial parse is Ok and the reference interpreter's implicit-skip closure from p reaches the end of input (no skip for @ and $ entries and for EOI); when Ok the tree equals the partial tree (tokens and Debug). Non-trivial = there is trailing text after p, or the entry is atomic and the input ends in skippable text; distinct by (grammar, rule, input).";

pub fn check_input(ctx: &mut Ctx, gi: &GInfo, rule: usize, input: &str) -> CaseResult {
    ctx.ev.eval();
    let (name, kind) = gi.rules[rule].clone();
    if !well_founded(ctx, gi, rule, input, 0, input.len()) {
        return CaseResult::Ok;
    }
    let q = |entry: Entry| gi.g.typed(Req { rule, entry, form: Form::Str, deep: true }, input);
    let part = q(Entry::ParsePartial);
    if part.panicked.is_some() {
        return violation(ctx, gi, rule, input, format!("try_parse_partial panicked: {:?}", part.panicked), json!({}));
    }
    // independent trailing-skip computation
    let atomic_entry = matches!(kind, Kind::Atomic | Kind::Compound) || (name == "EOI" && !gi.ir.has("EOI"));
    let mut k1_differs = false;
    let expect_ok = match part.end {
        None => false,
        Some(p) => {
            if atomic_entry {
                p == input.len()
            } else {
                let r = Interp::new(gi.ir, Cfg::default(), input, 0, input.len()).run_skip(p);
                let spec = match r.verdict() {
                    Some(Some(e)) => e == input.len(),
                    _ => {
                        ctx.ev.count("excluded.skip_not_well_founded");
                        return CaseResult::Ok;
                    }
                };
                if ctx.open("K1") {
                    let r1 = Interp::new(gi.ir, Cfg { k1: true, ..Cfg::default() }, input, 0, input.len()).run_skip(p);
                    if let Some(Some(e)) = r1.verdict() {
                        k1_differs = (e == input.len()) != spec;
                    }
                }
                spec
            }
        }
    };
    for entry in [Entry::ParseFull, Entry::CheckFull, Entry::ParserParse, Entry::ParserCheck] {
        let o = q(entry);
        if let Some(p) = &o.panicked {
            return violation(ctx, gi, rule, input, format!("{:?} panicked: {}", entry, p), json!({}));
        }
        if o.ok != expect_ok {
            if k1_differs {
                ctx.ev.count("excluded.K1");
                return CaseResult::Known("K1");
            }
            return violation(ctx, gi, rule, input, format!("{:?} returns ok={} but the prefix parse stops at {:?} of {} and the trailing skip {} the end", entry, o.ok, part.end, input.len(), if expect_ok { "reaches" } else { "does not reach" }), json!({"error": o.err.map(|e| e.display)}));
        }
        if o.ok && !entry.is_check() {
            if o.tokens != part.tokens || o.debug != part.debug {
                return violation(ctx, gi, rule, input, format!("{:?} returns a tree different from the prefix parse", entry), json!({"full": o.debug, "partial": part.debug}));
            }
            if o.clone_ok == Some(false) {
                return violation(ctx, gi, rule, input, "clone of the result differs from it".into(), json!({}));
            }
        }
    }
    if let Some(p) = part.end {
        let trailing = p < input.len();
        if trailing || atomic_entry {
            ctx.ev.nontrivial(hash_case(gi, rule, input, 4));
        }
        let class = match (trailing, expect_ok, atomic_entry) {
            (true, true, _) => "trailing_skippable_accepted",
            (true, false, true) => "atomic_entry_trailing_text_rejected",
            (true, false, false) => "trailing_text_rejected",
            (false, _, _) => "prefix_reaches_end",
        };
        ctx.ev.count(&format!("class.{}", class));
        ctx.ev.count(&format!("entry_kind.{:?}", kind));
        ctx.ev.sample(class, json!({"grammar": gi.g.id(), "rule": name, "kind": format!("{:?}", kind), "input": show(input), "prefix_end": p, "full_ok": expect_ok}));
    } else {
        ctx.ev.count("class.prefix_rejected");
    }
    CaseResult::Ok
}

pub fn case(ctx: &mut Ctx, gi: &GInfo, rule: usize, tape: &[u8]) -> CaseResult {
    let mut t = Tape::new(tape);
    let name = &gi.rules[rule].0;
    let input: String = if t.below(4) == 0 {
        gi.sg.input(name, &mut t)
    } else {
        let mut s = gi.sg.sentence(name, &mut t);
        let tail = match t.below(6) {
            0 => String::new(),
            1 => gi.sg.skippable(&mut t),
            2 => format!("{}{}", gi.sg.skippable(&mut t), gi.sg.alpha[t.below(gi.sg.alpha.len())]),
            3 => gi.sg.looks_skippable(&mut t),
            4 => format!("{}{}", gi.sg.skippable(&mut t), gi.sg.looks_skippable(&mut t)),
            _ => gi.sg.random_string(&mut t),
        };
        s.push_str(&tail);
        s
    };
    let input: String = input.chars().take(64).collect();
    check_input(ctx, gi, rule, &input)
}

pub fn run(world: &World, ctx: &mut Ctx) -> Option<Value> {
    ctx.ev.rule = RULE.to_string();
    let pairs = super::pairs(world, &[]);
    let total = ctx.tier.pick(250_000u64, 3_000_000u64);
    let n = super::per_pair(total, pairs.len(), 30, 20_000);
    ctx.ev.extra.insert("grammar_rule_pairs".into(), json!(pairs.len()));
    ctx.ev.extra.insert("cases_per_pair".into(), json!(n));
    if let Some(v) = run_reproducers(world, ctx, check_input) {
        return Some(v);
    }
    for (gi, rule) in pairs {
        if let Some(v) = tape_cases(ctx, gi, rule, n, 56, case) {
            return Some(v);
        }
    }
    None
}
