//! C08 — parsing a Span or Position sub-input equals parsing that slice on its own.

use crate::api::*;
use crate::common::show;
use crate::drive::*;
use crate::interp::Tok;
use crate::sentence::Tape;
use serde_json::{json, Value};

pub const RULE: &str = "cases: every rule of the grammars compiled with all input forms x host strings prefix+body+suffix (body derived from the rule, suffix often a continuation of a match, multi-byte characters around the cuts) x offsets a<=b on character boundaries (all pairs for hosts of <=10 characters in the exhaustive part). Metamorphic oracle on the typed parser alone: Span(host,a,b) and Position(host,a) must give the results of parsing a fresh String copy of host[a..b] / host[a..], with offsets shifted by a: verdict, consumed length, token forest, error position, for try_parse_partial, try_check_partial, try_parse, try_check; and replacing the text outside [a,b) must change nothing. Non-trivial = a>0 or b<len and the parse consumed >=1 character; distinct by (grammar, rule, host, a, b).";

fn shift(toks: &[Tok], by: usize) -> Vec<Tok> {
    toks.iter().map(|t| Tok { rule: t.rule.clone(), start: t.start + by, end: t.end + by, kids: shift(&t.kids, by) }).collect()
}

#[derive(Debug, PartialEq)]
struct Norm {
    panicked: bool,
    ok: bool,
    end: Option<usize>,
    tokens: Option<Vec<Tok>>,
    err_pos: Option<usize>,
}

fn norm(o: &Obs, by: usize) -> Norm {
    Norm { panicked: o.panicked.is_some(), ok: o.ok, end: o.end.map(|e| e + by), tokens: o.tokens.as_ref().map(|t| shift(t, by)), err_pos: o.err.as_ref().map(|e| e.pos + by) }
}

pub const ENTRIES: [Entry; 4] = [Entry::ParsePartial, Entry::CheckPartial, Entry::ParseFull, Entry::CheckFull];

pub fn check_sub(ctx: &mut Ctx, gi: &GInfo, rule: usize, host: &str, a: usize, b: usize) -> CaseResult {
    ctx.ev.eval();
    ctx.progress.fetch_add(1, std::sync::atomic::Ordering::Relaxed);
    let name = gi.rules[rule].0.clone();
    if !well_founded(ctx, gi, rule, host, a, b) || !well_founded(ctx, gi, rule, host, a, host.len()) {
        return CaseResult::Ok;
    }
    let copy_span: String = host[a..b].to_string();
    let copy_pos: String = host[a..].to_string();
    // second relation: other text outside [a,b)
    let other = format!("{}{}{}", "Z".repeat(a), &host[a..b], "Z~ü");
    let mut consumed = false;
    for entry in ENTRIES {
        let sub = gi.g.typed(Req { rule, entry, form: Form::Span(a, b), deep: false }, host);
        let alone = gi.g.typed(Req { rule, entry, form: Form::Str, deep: false }, &copy_span);
        if let Some(p) = &sub.panicked {
            return violation(ctx, gi, rule, host, format!("{:?} on Span({},{}) panicked: {}", entry, a, b, p), json!({"a": a, "b": b}));
        }
        let (ns, na) = (norm(&sub, 0), norm(&alone, a));
        if ns != na {
            if ctx.open("F1") && gi.ir.opt.iter().any(|r| r.expr.any(&|e| matches!(e, crate::ir::Expr::Skip(_)))) {
                ctx.ev.count("excluded.F1");
                return CaseResult::Known("F1");
            }
            return violation(ctx, gi, rule, host, format!("{:?}: Span({},{}) gives {:?}, the copy of the slice gives {:?}", entry, a, b, ns, na), json!({"a": a, "b": b, "slice": copy_span}));
        }
        let sub2 = gi.g.typed(Req { rule, entry, form: Form::Span(a, b), deep: false }, &other);
        if norm(&sub2, 0) != ns {
            return violation(ctx, gi, rule, host, format!("{:?}: Span({},{}) result depends on text outside the span", entry, a, b), json!({"a": a, "b": b, "other_host": other}));
        }
        if sub.end.map(|e| e > a).unwrap_or(false) {
            consumed = true;
        }
        // Position
        let psub = gi.g.typed(Req { rule, entry, form: Form::Pos(a), deep: false }, host);
        let palone = gi.g.typed(Req { rule, entry, form: Form::Str, deep: false }, &copy_pos);
        if let Some(p) = &psub.panicked {
            return violation(ctx, gi, rule, host, format!("{:?} on Position({}) panicked: {}", entry, a, p), json!({"a": a}));
        }
        let (ns, na) = (norm(&psub, 0), norm(&palone, a));
        if ns != na {
            return violation(ctx, gi, rule, host, format!("{:?}: Position({}) gives {:?}, the copy of the tail gives {:?}", entry, a, ns, na), json!({"a": a, "b": host.len()}));
        }
    }
    if (a > 0 || b < host.len()) && consumed {
        ctx.ev.nontrivial(hash_case(gi, rule, host, (a * 1000 + b) as u64));
        let class = if b < host.len() && a > 0 { "inner_range" } else if b < host.len() { "cut_at_end" } else { "cut_at_start" };
        ctx.ev.count(&format!("class.{}", class));
        ctx.ev.sample(class, json!({"grammar": gi.g.id(), "rule": name, "host": show(host), "a": a, "b": b}));
    }
    CaseResult::Ok
}

pub fn case(ctx: &mut Ctx, gi: &GInfo, rule: usize, tape: &[u8]) -> CaseResult {
    let mut t = Tape::new(tape);
    let name = &gi.rules[rule].0;
    let body: String = gi.sg.input(name, &mut t).chars().take(40).collect();
    let prefix: String = match t.below(3) {
        0 => String::new(),
        1 => gi.sg.random_string(&mut t).chars().take(4).collect(),
        _ => gi.sg.sentence(name, &mut t).chars().take(5).collect(),
    };
    let suffix: String = match t.below(4) {
        0 => String::new(),
        1 => gi.sg.random_string(&mut t).chars().take(4).collect(),
        2 => gi.sg.sentence(name, &mut t).chars().take(6).collect(),
        _ => gi.sg.skippable(&mut t),
    };
    let host = format!("{}{}{}", prefix, body, suffix);
    // mostly the natural cut, sometimes any boundary pair
    let bounds: Vec<usize> = host.char_indices().map(|(i, _)| i).chain(std::iter::once(host.len())).collect();
    let (a, b) = if t.below(4) == 0 {
        let i = t.below(bounds.len());
        let j = t.below(bounds.len());
        (bounds[i.min(j)], bounds[i.max(j)])
    } else {
        (prefix.len(), prefix.len() + body.len())
    };
    check_sub(ctx, gi, rule, &host, a, b)
}

pub fn run(world: &World, ctx: &mut Ctx) -> Option<Value> {
    ctx.ev.rule = RULE.to_string();
    let pairs: Vec<_> = super::pairs(world, &[]).into_iter().filter(|(g, _)| g.g.forms()).collect();
    // reproducers of listed findings
    for f in ctx.findings.clone().iter().filter(|f| f.open() && f.properties.iter().any(|p| p == "C08")) {
        for (k, rep) in f.raw["reproducers"].as_array().cloned().unwrap_or_default().iter().enumerate() {
            let id = format!("kf_{}_{}", f.id, k);
            if let Some(gi) = world.grammars.iter().find(|g| g.g.id() == id) {
                if let Some(rule) = gi.rules.iter().position(|r| Some(r.0.as_str()) == rep["rule"].as_str()) {
                    let host = rep["input"].as_str().unwrap_or("");
                    let (a, b) = (rep["a"].as_u64().unwrap_or(0) as usize, rep["b"].as_u64().unwrap_or(host.len() as u64) as usize);
                    match check_sub(ctx, gi, rule, host, a, b) {
                        CaseResult::Known(id) => crate::common::print_known("C08", id, rep["what"].as_str().unwrap_or("")),
                        CaseResult::Violation(v) => return Some(v),
                        CaseResult::Ok => {}
                    }
                }
            }
        }
    }
    let total = ctx.tier.pick(80_000u64, 1_500_000u64);
    let n = super::per_pair(total, pairs.len(), 30, 20_000);
    ctx.ev.extra.insert("grammar_rule_pairs".into(), json!(pairs.len()));
    ctx.ev.extra.insert("cases_per_pair".into(), json!(n));
    // exhaustive part: every boundary pair of short hosts
    for (gi, rule) in &pairs {
        let mut t = Tape::new(&[200, 120, 40, 220, 90, 10, 250, 130, 60, 180, 30, 240]);
        let host: String = gi.sg.sentence(&gi.rules[*rule].0, &mut t).chars().take(10).collect();
        let bounds: Vec<usize> = host.char_indices().map(|(i, _)| i).chain(std::iter::once(host.len())).collect();
        for (i, &a) in bounds.iter().enumerate() {
            for &b in &bounds[i..] {
                match check_sub(ctx, gi, *rule, &host, a, b) {
                    CaseResult::Violation(v) => return Some(v),
                    CaseResult::Known(id) => ctx.ev.known_finding(id),
                    CaseResult::Ok => {}
                }
                ctx.ev.count("exhaustive_boundary_pairs");
            }
        }
    }
    // small-scope enumeration on the sub-input family: every string up to the length bound over
    // the family's alphabet x every boundary pair x every rule
    if let Some(gi) = world.grammars.iter().find(|g| g.g.family() == "subinput") {
        let alpha = ['X', 'Y', 'a', 'b'];
        let max = ctx.tier.pick(4usize, 6usize);
        let mut strings = vec![String::new()];
        let mut frontier = vec![String::new()];
        for _ in 0..max {
            let mut next = vec![];
            for s in &frontier {
                for c in alpha {
                    let mut t = s.clone();
                    t.push(c);
                    next.push(t);
                }
            }
            strings.extend(next.iter().cloned());
            frontier = next;
        }
        for host in &strings {
            for a in 0..=host.len() {
                for b in a..=host.len() {
                    for rule in 0..gi.rules.len() {
                        match check_sub(ctx, gi, rule, host, a, b) {
                            CaseResult::Violation(v) => return Some(v),
                            CaseResult::Known(id) => ctx.ev.known_finding(id),
                            CaseResult::Ok => {}
                        }
                        ctx.ev.count("exhaustive_subinput_family");
                    }
                }
            }
        }
        ctx.ev.extra.insert("exhaustive_subinput_strings".into(), json!(strings.len()));
    }
    for (gi, rule) in pairs {
        if let Some(v) = tape_cases(ctx, gi, rule, n, 64, case) {
            return Some(v);
        }
    }
    None
}

pub fn replay(ctx: &mut Ctx, gi: &GInfo, rule: usize, doc: &Value) -> CaseResult {
    let host = doc["input"].as_str().unwrap_or("");
    let a = doc["detail"]["a"].as_u64().unwrap_or(0) as usize;
    let b = doc["detail"]["b"].as_u64().unwrap_or(host.len() as u64) as usize;
    check_sub(ctx, gi, rule, host, a, b)
}
