//! C10 — error reports are in bounds, not before consumed input, and truthful.

use crate::api::*;
use crate::common::show;
use crate::drive::*;
use crate::interp::{Attempt, Cfg, Interp};
use crate::ir::Kind;
use serde_json::{json, Value};

pub const RULE: &str = "cases: every rule of every corpus grammar x rejected inputs (near-miss mutations make rejection after progress frequent; for the grammars compiled with all input forms a quarter of the cases are Span / Position sub-inputs, whose reports must lie in the given range) for try_parse / try_parse_partial / try_check (Display of the pest::error::Error) and try_parse_with / try_parse_partial_with with the harness' own Tracker (finish(): position and attempt lists). Oracle: the reference interpreter's attempt trace of the same parse on the optimised AST (rule, position, outcome), extended by the full-parse wrapper's trailing skip and EOI attempt: the reported position p must lie in the input range on a character boundary and not before the end of the prefix the rule matched; every rule listed as expected must have a failed attempt at p in the trace, every rule listed as unexpected a successful one; 'empty stack' / 'slice out of bound' entries must correspond to such events at p; Display must not panic, location and line/column must agree with p; a second run must give the identical report. Non-trivial = the report lists >=1 rule and p > start, or a predicate lies on the failing path, or the failure is the end-of-input check; distinct by (grammar, rule, input, entry).";

fn trace_for(gi: &GInfo, name: &str, kind: Kind, input: &str, full: bool) -> Option<(Option<usize>, Vec<Attempt>, crate::interp::Events)> {
    trace_with(gi, name, kind, input, full, false)
}

fn trace_with(gi: &GInfo, name: &str, kind: Kind, input: &str, full: bool, k1: bool) -> Option<(Option<usize>, Vec<Attempt>, crate::interp::Events)> {
    trace_in(gi, name, kind, input, 0, input.len(), full, k1)
}

#[allow(clippy::too_many_arguments)]
fn trace_in(gi: &GInfo, name: &str, kind: Kind, host: &str, lo: usize, hi: usize, full: bool, k1: bool) -> Option<(Option<usize>, Vec<Attempt>, crate::interp::Events)> {
    let cfg = Cfg { optimised: true, trace: true, k1, ..Cfg::default() };
    let input = host;
    let r = Interp::new(gi.ir, cfg.clone(), input, lo, hi).run_rule(name);
    if !r.defined() {
        return None;
    }
    let mut attempts = r.attempts.clone();
    let v = r.verdict().unwrap();
    if full {
        if let Some(e) = v {
            let atomic = matches!(kind, Kind::Atomic | Kind::Compound) || (name == "EOI" && !gi.ir.has("EOI"));
            let p = if atomic {
                e
            } else {
                match Interp::new(gi.ir, cfg, input, lo, hi).run_skip(e).verdict() {
                    Some(Some(p)) => p,
                    _ => return None,
                }
            };
            attempts.push(Attempt { rule: "EOI".into(), pos: p, ok: p == hi, negated: false });
        }
    }
    Some((v, attempts, r.events))
}

pub fn check_input(ctx: &mut Ctx, gi: &GInfo, rule: usize, input: &str) -> CaseResult {
    let (name, kind) = gi.rules[rule].clone();
    if !well_founded(ctx, gi, rule, input, 0, input.len()) {
        return CaseResult::Ok;
    }
    for (entry, full) in [(Entry::ParseFullWith, true), (Entry::ParsePartialWith, false), (Entry::CheckFullWith, true)] {
        ctx.ev.eval();
        let t = gi.g.typed(Req { rule, entry, form: Form::Str, deep: false }, input);
        if t.panicked.is_some() {
            return violation(ctx, gi, rule, input, format!("{:?} panicked: {:?}", entry, t.panicked), json!({}));
        }
        if t.ok {
            ctx.ev.count("skipped.accepted");
            continue;
        }
        let (rv, mut trace, events) = match trace_for(gi, &name, kind, input, full) {
            Some(x) => x,
            None => {
                ctx.ev.count("excluded.not_well_founded_or_budget");
                return CaseResult::Ok;
            }
        };
        // finding K1 changes which attempts are made inside skip rules that are entered
        // non-atomically; those attempts are real, so they are added to the trace
        if ctx.open("K1") && (gi.ir.has_ws() || gi.ir.has_comment()) {
            if let Some((rv1, t1, _)) = trace_with(gi, &name, kind, input, full, true) {
                if rv1 == rv {
                    trace.extend(t1);
                }
            }
        }
        // the plain entry point (Display of the error)
        let plain_entry = match entry {
            Entry::ParseFullWith => Entry::ParseFull,
            Entry::ParsePartialWith => Entry::ParsePartial,
            _ => Entry::CheckFull,
        };
        let plain = gi.g.typed(Req { rule, entry: plain_entry, form: Form::Str, deep: false }, input);
        let again = gi.g.typed(Req { rule, entry: plain_entry, form: Form::Str, deep: false }, input);
        let tr = t.tracker.clone().unwrap_or_default();
        let (prop, seed) = (ctx.prop, ctx.seed);
        let bad = |why: String| {
            CaseResult::Violation(json!({"property": prop, "grammar": gi.describe(), "rule": gi.rules[rule].0, "input": input, "why": why, "seed": seed as i64,
                "detail": {"entry": format!("{:?}", entry), "report": format!("{:?}", tr), "display": plain.err.as_ref().map(|e| e.display.clone())}}))
        };
        let err = match &plain.err {
            Some(e) => e,
            None => return bad(format!("{:?} fails but {:?} succeeds", entry, plain_entry)),
        };
        if err.display_panicked {
            return bad(format!("rendering the error panicked: {}", err.display));
        }
        if plain != again {
            return bad("two runs give different error reports".into());
        }
        let p = tr.pos;
        if p > input.len() || !input.is_char_boundary(p) {
            return bad(format!("reported position {} is outside the input or off a character boundary", p));
        }
        if err.pos != p {
            return bad(format!("error location {} differs from the tracker position {}", err.pos, p));
        }
        if pest::Position::new(input, p).map(|q| q.line_col()) != Some(err.line_col) {
            return bad(format!("line/column {:?} does not belong to offset {}", err.line_col, p));
        }
        // is the acceptance itself as the specification says?  otherwise this is C01's business
        // (known findings K1, K2 included)
        let tp = gi.g.typed(Req { rule, entry: Entry::ParsePartial, form: Form::Str, deep: false }, input);
        let tpv = if tp.ok { tp.end } else { None };
        if tpv != rv {
            ctx.ev.count("skipped.acceptance_differs_from_reference");
            continue;
        }
        if full {
            if let Some(e) = rv {
                if p < e {
                    return bad(format!("reported position {} lies before the end {} of the prefix the rule matched", p, e));
                }
            }
        }
        // the rendered message makes the same claims: parse its "Expected [..]" / "Unexpected [..]"
        // lines and hold them against the trace as well
        for line in err.display.lines() {
            let l = line.trim();
            let lists = |key: &str| -> Vec<String> {
                let lower = l.to_lowercase();
                match lower.find(key) {
                    Some(p) => {
                        let rest = &l[p + key.len()..];
                        match (rest.find('['), rest.find(']')) {
                            (Some(a), Some(b)) if a < b => rest[a + 1..b].split(',').map(|x| x.trim().to_string()).filter(|x| !x.is_empty()).collect(),
                            _ => vec![],
                        }
                    }
                    None => vec![],
                }
            };
            if !(l.starts_with("Expected") || l.starts_with("Unexpected")) {
                continue;
            }
            // "Unexpected [a], expected [b]" | "Expected [b]" | "Unexpected [a]"
            let unexpected = lists("unexpected ");
            let mut expected = vec![];
            if let Some(p) = l.to_lowercase().rfind("expected [") {
                let before = &l[..p];
                if !before.to_lowercase().ends_with("un") {
                    let rest = &l[p..];
                    if let (Some(a), Some(b)) = (rest.find('['), rest.find(']')) {
                        expected = rest[a + 1..b].split(',').map(|x| x.trim().to_string()).filter(|x| !x.is_empty()).collect();
                    }
                }
            }
            for r in &expected {
                if !trace.iter().any(|a| a.rule == *r && a.pos == p && !a.ok) {
                    return bad(format!("the message says rule {} is expected at {} but no attempt of it fails there", r, p));
                }
            }
            for r in &unexpected {
                if !trace.iter().any(|a| a.rule == *r && a.pos == p && a.ok) {
                    return bad(format!("the message says rule {} is unexpected at {} but no attempt of it succeeds there", r, p));
                }
            }
            ctx.ev.count("message_lines_checked");
        }
        let mut listed = 0;
        for (_upper, expected, unexpected, special) in &tr.attempts {
            for r in expected {
                listed += 1;
                if !trace.iter().any(|a| a.rule == *r && a.pos == p && !a.ok) {
                    return bad(format!("rule {} is listed as expected at {} but no attempt of it fails there", r, p));
                }
            }
            for r in unexpected {
                listed += 1;
                if !trace.iter().any(|a| a.rule == *r && a.pos == p && a.ok) {
                    return bad(format!("rule {} is listed as unexpected at {} but no attempt of it succeeds there", r, p));
                }
            }
            for s in special {
                let ok = if s.contains("pop or drop") {
                    events.empty_stack_ops.contains(&p)
                } else if s.contains("out of bound") {
                    events.slice_out_of_range.contains(&p)
                } else {
                    true
                };
                if !ok {
                    return bad(format!("special entry {:?} at {} has no corresponding event in the reference trace", s, p));
                }
                ctx.ev.count("class.special_entry");
            }
        }
        let eoi_failure = full && rv.is_some();
        if (listed > 0 && p > 0) || events.predicates > 0 || eoi_failure {
            ctx.ev.nontrivial(hash_case(gi, rule, input, entry as u64 + 100));
            let class = if eoi_failure { "end_of_input_check_fails" } else if events.predicates > 0 { "predicate_on_the_path" } else { "fails_after_progress" };
            ctx.ev.count(&format!("class.{}", class));
            ctx.ev.sample(class, json!({"grammar": gi.g.id(), "rule": name, "input": show(input), "entry": format!("{:?}", entry), "position": p, "report": tr.attempts.iter().map(|(u, e, n, s)| json!({"by": u, "expected": e, "unexpected": n, "special": s})).collect::<Vec<_>>()}));
        } else {
            ctx.ev.count("class.fails_at_start");
        }
    }
    CaseResult::Ok
}

/// Sub-input forms: the reported location must lie in the given range and the listed rules
/// must have been attempted there (the same trace oracle, run on the range).
pub fn check_sub(ctx: &mut Ctx, gi: &GInfo, rule: usize, host: &str, form: Form) -> CaseResult {
    let (name, kind) = gi.rules[rule].clone();
    let (lo, hi) = form.bounds(host.len());
    if !well_founded(ctx, gi, rule, host, lo, hi) {
        return CaseResult::Ok;
    }
    for (entry, plain_entry, full) in [(Entry::ParseFullWith, Entry::ParseFull, true), (Entry::ParsePartialWith, Entry::ParsePartial, false)] {
        ctx.ev.eval();
        let t = gi.g.typed(Req { rule, entry, form, deep: false }, host);
        if t.panicked.is_some() || t.ok {
            continue;
        }
        let (rv, mut trace, _) = match trace_in(gi, &name, kind, host, lo, hi, full, false) {
            Some(x) => x,
            None => return CaseResult::Ok,
        };
        if ctx.open("K1") && (gi.ir.has_ws() || gi.ir.has_comment()) {
            if let Some((rv1, t1, _)) = trace_in(gi, &name, kind, host, lo, hi, full, true) {
                if rv1 == rv {
                    trace.extend(t1);
                }
            }
        }
        let tp = gi.g.typed(Req { rule, entry: Entry::ParsePartial, form, deep: false }, host);
        if (if tp.ok { tp.end } else { None }) != rv {
            continue;
        }
        let tr = t.tracker.clone().unwrap_or_default();
        let plain = gi.g.typed(Req { rule, entry: plain_entry, form, deep: false }, host);
        let p = tr.pos;
        let why = if p < lo || p > hi || !host.is_char_boundary(p) {
            Some(format!("reported position {} is outside the given range {}..{}", p, lo, hi))
        } else if plain.err.as_ref().map(|e| e.pos) != Some(p) {
            Some(format!("error location {:?} differs from the tracker position {}", plain.err.as_ref().map(|e| e.pos), p))
        } else {
            let mut w = None;
            for (_u, expected, unexpected, _s) in &tr.attempts {
                for r in expected {
                    if !trace.iter().any(|a| a.rule == *r && a.pos == p && !a.ok) {
                        w = Some(format!("rule {} is listed as expected at {} but no attempt of it fails there", r, p));
                    }
                }
                for r in unexpected {
                    if !trace.iter().any(|a| a.rule == *r && a.pos == p && a.ok) {
                        w = Some(format!("rule {} is listed as unexpected at {} but no attempt of it succeeds there", r, p));
                    }
                }
            }
            w
        };
        if let Some(why) = why {
            return violation(ctx, gi, rule, host, why, json!({"form": format!("{:?}", form), "entry": format!("{:?}", entry), "report": format!("{:?}", tr)}));
        }
        ctx.ev.count("class.sub_input_report");
        ctx.ev.nontrivial(hash_case(gi, rule, host, crate::common::fnv(format!("{:?}{:?}", form, entry).as_bytes())));
    }
    CaseResult::Ok
}

pub fn case(ctx: &mut Ctx, gi: &GInfo, rule: usize, tape: &[u8]) -> CaseResult {
    if gi.g.forms() && tape.first().map(|b| b % 4 == 0).unwrap_or(false) {
        let (host, form) = super::p03::host_and_form(gi, rule, &tape[1..]);
        if form != Form::Str {
            return check_sub(ctx, gi, rule, &host, form);
        }
    }
    let (input, _) = input_from(gi, rule, tape);
    check_input(ctx, gi, rule, &input)
}

pub fn replay(ctx: &mut Ctx, gi: &GInfo, rule: usize, doc: &Value) -> CaseResult {
    let form = super::p03::parse_form(&doc["detail"]["form"]);
    let input = doc["input"].as_str().unwrap_or("");
    if form != Form::Str {
        return check_sub(ctx, gi, rule, input, form);
    }
    check_input(ctx, gi, rule, input)
}

pub fn run(world: &World, ctx: &mut Ctx) -> Option<Value> {
    ctx.ev.rule = RULE.to_string();
    let pairs = super::pairs(world, &[]);
    let total = ctx.tier.pick(120_000u64, 1_500_000u64);
    let n = super::per_pair(total, pairs.len(), 20, 20_000);
    ctx.ev.extra.insert("grammar_rule_pairs".into(), json!(pairs.len()));
    ctx.ev.extra.insert("cases_per_pair".into(), json!(n));
    for (gi, rule) in pairs {
        if let Some(v) = tape_cases(ctx, gi, rule, n, 48, case) {
            return Some(v);
        }
    }
    None
}
