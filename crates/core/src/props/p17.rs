//! C17 — choice, sequence and leaf accessors reflect what was actually matched.

use crate::api::*;
use crate::arity::MAX_ARITY;
use crate::common::{fnv, show, Rng};
use crate::drive::*;
use crate::interp::{self, Cfg, Node, NK};
use serde_json::{json, Value};

pub const RULE: &str = "cases: arity family compiled into the corpus with generated accessor code - for every arity n = 2..16 (library-provided and macro-generated types) a choice c_n whose alternatives overlap (alternative i is the string a^(n-i), so that on a^m the alternatives n-m..n-1 all match) x every m = 0..n+1 with and without a suffix, a mixed-kind choice, a sequence s_n of n rule references with blanks at subsets of the gaps, repetitions with skipped blanks, and leaf rules (range, ANY, case-insensitive string, NEWLINE, Unicode properties, ASCII sets, PUSH/PEEK/PEEK_ALL/POP/POP_ALL, skip-until instantiated from the runtime crate) x every character / spelling in a boundary-dense candidate set. Observed: which _k() is Some, the index run by if_then/else_if/else_then, reference(), consume_if_then and match_choices!; spans of get_matched / as_ref / into_matched elements and of get_all (with blanks skipped before each); iter_matched / iter_all / into_iter_matched; Debug of leaf contents. Oracle: the alternative index and element spans of the reference derivation on the optimised AST, cross-checked with values computed from the construction of the input. Non-trivial = >=2 alternatives match at the position or arity >=13, a sequence/repetition with >=1 skipped blank, or a leaf at the edge of its character class; distinct by (rule, input).";

fn find_choice(n: &Node) -> Option<usize> {
    if let NK::Choice(i) = n.kind {
        return Some(i);
    }
    n.kids.iter().find_map(find_choice)
}

fn probe(ctx: &mut Ctx, gi: &GInfo, what: &str, rule: usize, input: &str, expected: Option<String>, nontrivial: bool, class: &str) -> Option<Value> {
    ctx.ev.eval();
    ctx.progress.fetch_add(1, std::sync::atomic::Ordering::Relaxed);
    let got = gi.g.probe(what, rule, input);
    if got != expected {
        let name = if rule < gi.rules.len() { gi.rules[rule].0.clone() } else { what.to_string() };
        return Some(json!({"property": "C17", "grammar": gi.describe(), "rule": name, "input": input, "probe": what,
            "why": format!("accessors give {:?}, expected {:?}", got, expected)}));
    }
    if nontrivial && expected.is_some() {
        ctx.ev.nontrivial(fnv(format!("{}\u{0}{}\u{0}{}", what, rule, input).as_bytes()));
        ctx.ev.count(&format!("class.{}", class));
        ctx.ev.sample(class, json!({"rule": if rule < gi.rules.len() { gi.rules[rule].0.clone() } else { what.to_string() }, "input": show(input), "accessors": expected}));
    } else {
        ctx.ev.count("class.trivial_or_rejected");
    }
    None
}

fn reference_choice(gi: &GInfo, name: &str, input: &str) -> Option<Option<usize>> {
    let r = interp::run(gi.ir, &Cfg { optimised: true, ..Cfg::default() }, name, input, 0, input.len());
    match r.matched() {
        Some((_, d)) => Some(find_choice(d)),
        None if r.defined() => Some(None),
        None => None,
    }
}

pub fn run(world: &World, ctx: &mut Ctx) -> Option<Value> {
    ctx.ev.rule = RULE.to_string();
    let gi = match world.grammars.iter().find(|g| g.g.id() == "arity") {
        Some(g) => g,
        None => {
            eprintln!("runner: the arity grammar is not in the corpus");
            return Some(json!({"property": "C17", "why": "the arity family did not compile", "grammar": {"id": "arity"}}));
        }
    };
    let idx = |name: &str| gi.rules.iter().position(|r| r.0 == name).unwrap();
    let mut rng = Rng::new(crate::common::sub_seed(ctx.seed, "C17"));
    // choices of every arity
    for n in 2..=MAX_ARITY {
        let name = format!("c{}", n);
        let rule = idx(&name);
        for m in 0..=n + 1 {
            for suffix in ["", "b", " a"] {
                let input = format!("{}{}", "a".repeat(m), suffix);
                // from the construction: first alternative whose string a^(n-i) is a prefix
                let by_construction = (0..n).find(|i| n - i <= m);
                let by_reference = reference_choice(gi, &name, &input).flatten();
                if by_construction != by_reference {
                    return Some(json!({"property": "C17", "why": format!("harness: construction says alternative {:?}, reference interpreter {:?}", by_construction, by_reference), "rule": name, "input": input, "grammar": gi.describe()}));
                }
                let expected = by_construction.map(|k| format!("somes=[{}] if_then={} reference={} consume={} match={}", k, k, k, k, k));
                let matching = if m >= 1 { m.min(n) } else { 0 };
                if let Some(v) = probe(ctx, gi, "choice", rule, &input, expected, matching >= 2 || n >= 13, if n >= 13 { "choice_macro_generated_arity" } else { "choice_several_alternatives_match" }) {
                    return Some(v);
                }
                ctx.ev.count(&format!("arity.{}", n));
            }
        }
    }
    // mixed-kind overlapping choice: all strings up to length 3 over a small alphabet
    {
        let name = "cmix";
        let rule = idx(name);
        let alpha = ['a', 'b', 'A', 'B', 'c', 'z', 'é'];
        let mut all = vec![String::new()];
        let mut frontier = vec![String::new()];
        for _ in 0..3 {
            let mut next = vec![];
            for s in &frontier {
                for c in alpha {
                    let mut t = s.clone();
                    t.push(c);
                    next.push(t);
                }
            }
            all.extend(next.iter().cloned());
            frontier = next;
        }
        for input in all {
            let k = match reference_choice(gi, name, &input) {
                Some(k) => k,
                None => continue,
            };
            let expected = k.map(|k| format!("somes=[{}] if_then={} reference={} consume={} match={}", k, k, k, k, k));
            if let Some(v) = probe(ctx, gi, "choice", rule, &input, expected, true, "choice_mixed_kinds") {
                return Some(v);
            }
        }
    }
    // sequences: n letters, blanks at subsets of the gaps
    for n in 2..=MAX_ARITY {
        let name = format!("s{}", n);
        let rule = idx(&name);
        let subsets: Vec<u32> = if n <= 6 { (0..(1u32 << (n - 1))).collect() } else { (0..48).map(|_| (rng.next_u64() as u32) & ((1u32 << (n - 1)) - 1)).chain([0, (1u32 << (n - 1)) - 1]).collect() };
        for mask in subsets {
            let mut input = String::new();
            let mut spans = vec![];
            let mut blanks = vec![];
            for i in 0..n {
                let mut b = 0;
                if i > 0 && mask >> (i - 1) & 1 == 1 {
                    b = 1 + (mask as usize + i) % 2;
                    input.push_str(&" ".repeat(b));
                }
                blanks.push(b);
                spans.push((input.len(), input.len() + 1));
                input.push((b'a' + (i as u8 % 26)) as char);
            }
            let m = spans.iter().map(|(a, b)| format!("{}..{}", a, b)).collect::<Vec<_>>().join(",");
            let all = spans.iter().zip(blanks.iter()).map(|((a, b), k)| format!("{}+{}..{}", k, a, b)).collect::<Vec<_>>().join(",");
            let expected = Some(format!("matched=[{}] as_ref=[{}] into=[{}] all=[{}]", m, m, m, all));
            if let Some(v) = probe(ctx, gi, "sequence", rule, &input, expected, mask != 0 || n >= 13, if n >= 13 { "sequence_macro_generated_arity" } else { "sequence_with_skipped_blanks" }) {
                return Some(v);
            }
        }
        // too short: rejected
        let short: String = (0..n - 1).map(|i| (b'a' + i as u8) as char).collect();
        if let Some(v) = probe(ctx, gi, "sequence", rule, &short, None, false, "") {
            return Some(v);
        }
    }
    // repetitions
    for (name, sep) in [("rp", ""), ("rp1", ",")] {
        let rule = idx(name);
        for k in 0..6usize {
            for mask in 0..(1u32 << (2 * k).min(8)) {
                let mut input = String::new();
                let mut spans = vec![];
                let mut blanks = vec![];
                for i in 0..k {
                    let mut b = 0;
                    if i > 0 && mask >> (2 * i - 2) & 1 == 1 {
                        b = 1;
                        input.push(' ');
                    }
                    blanks.push(b);
                    spans.push((input.len(), input.len() + 1));
                    input.push((b'a' + i as u8) as char);
                    if !sep.is_empty() {
                        if mask >> (2 * i) & 2 == 2 {
                            input.push(' ');
                        }
                        input.push_str(sep);
                    }
                }
                let m = spans.iter().map(|(a, b)| format!("{}..{}", a, b)).collect::<Vec<_>>().join(",");
                let all = spans.iter().zip(blanks.iter()).map(|((a, b), k)| format!("{}+{}..{}", k, a, b)).collect::<Vec<_>>().join(",");
                let expected = if k == 0 && name == "rp1" { None } else { Some(format!("matched=[{}] into=[{}] all=[{}]", m, m, all)) };
                if let Some(v) = probe(ctx, gi, "repetition", rule, &input, expected, mask != 0 && k >= 2, "repetition_with_skipped_blanks") {
                    return Some(v);
                }
            }
        }
    }
    // leaves
    let mut cands: Vec<char> = vec![];
    for r in [0x2f..0x3b, 0x40..0x48, 0x5a..0x68, 0x79..0x81, 0xbf..0xc2, 0xd6..0xd9, 0xde..0xe1, 0xf6..0xf9, 0x1c4..0x1c7, 0x2af..0x2b2, 0x36f..0x374, 0x3a8..0x3ac, 0x3af..0x3b3, 0x3c7..0x3cc, 0x2e7f..0x2e82, 0x3005..0x3008, 0x33ff..0x3402, 0x4dbe..0x4dc1, 0x4dff..0x4e02, 0x9ffe..0xa001, 0xf8ff..0xf902, 0x1f5ff..0x1f602, 0x1fffe..0x20002, 0x2a6de..0x2a6e1] {
        for c in r {
            if let Some(ch) = char::from_u32(c) {
                cands.push(ch);
            }
        }
    }
    cands.extend(['\n', '\r', ' ', '\u{0}', '\u{7f}']);
    let leaf = |name: &str, ok: &dyn Fn(char) -> bool, fmt: &dyn Fn(char) -> String, ctx: &mut Ctx| -> Option<Value> {
        let rule = idx(name);
        let mut prev_ok = false;
        for &c in &cands {
            let input = format!("{}z", c);
            let accept = ok(c);
            let expected = if accept { Some(fmt(c)) } else { None };
            let edge = accept != prev_ok;
            prev_ok = accept;
            if let Some(v) = probe(ctx, gi, "leaf", rule, &input, expected, edge || accept, "leaf_character") {
                return Some(v);
            }
        }
        None
    };
    if let Some(v) = leaf("lf_range", &|c| ('b'..='f').contains(&c), &|c| format!("CharRange {{ content: {:?} }}", c), ctx) {
        return Some(v);
    }
    if let Some(v) = leaf("lf_greek", &|c| ('α'..='ω').contains(&c), &|c| format!("CharRange {{ content: {:?} }}", c), ctx) {
        return Some(v);
    }
    if let Some(v) = leaf("lf_cjk", &|c| ('一'..='龥').contains(&c), &|c| format!("CharRange {{ content: {:?} }}", c), ctx) {
        return Some(v);
    }
    if let Some(v) = leaf("lf_any", &|_| true, &|c| format!("ANY {{ content: {:?} }}", c), ctx) {
        return Some(v);
    }
    if let Some(v) = leaf("lf_digit", &|c| c.is_ascii_digit(), &|c| format!("CharRange {{ content: {:?} }}", c), ctx) {
        return Some(v);
    }
    if let Some(v) = leaf("lf_hex", &|c| c.is_ascii_hexdigit(), &|c| format!("Choice3 {{ _{}: CharRange {{ content: {:?} }} }}", if c.is_ascii_digit() { 0 } else if c.is_ascii_lowercase() { 1 } else { 2 }, c), ctx) {
        return Some(v);
    }
    if let Some(v) = leaf(
        "lf_alnum",
        &|c| c.is_ascii_alphanumeric(),
        &|c| {
            if c.is_ascii_digit() {
                format!("Choice2 {{ _1: CharRange {{ content: {:?} }} }}", c)
            } else {
                format!("Choice2 {{ _0: Choice2 {{ _{}: CharRange {{ content: {:?} }} }} }}", if c.is_ascii_lowercase() { 0 } else { 1 }, c)
            }
        },
        ctx,
    ) {
        return Some(v);
    }
    for (rule_name, prop) in [("lf_letter", "LETTER"), ("lf_han", "HAN"), ("lf_upper", "UPPERCASE_LETTER")] {
        let f = pest::unicode::by_name(prop).expect("unicode property");
        if let Some(v) = leaf(rule_name, &|c| f(c), &|c| format!("{} {{ content: {:?} }}", prop, c), ctx) {
            return Some(v);
        }
    }
    // case-insensitive spellings
    {
        let rule = idx("lf_ins");
        for a in ['a', 'A', 'b'] {
            for b in ['b', 'B', 'a'] {
                for e in ['é', 'É', 'e'] {
                    let sp: String = [a, b, e].iter().collect();
                    let accept = a.eq_ignore_ascii_case(&'a') && b.eq_ignore_ascii_case(&'b') && e == 'é';
                    let expected = accept.then(|| format!("Insens {{ content: {:?} }}", sp));
                    if let Some(v) = probe(ctx, gi, "leaf", rule, &format!("{}!", sp), expected, true, "leaf_insensitive_spelling") {
                        return Some(v);
                    }
                }
            }
        }
    }
    {
        let rule = idx("lf_nl");
        for (input, kind) in [("\r\nx", Some("CRLF")), ("\nx", Some("LF")), ("\rx", Some("CR")), ("\r\r\n", Some("CR")), ("\n\r", Some("LF")), ("x\n", None), ("", None)] {
            let expected = kind.map(|k| format!("NEWLINE {{ content: {} }}", k));
            if let Some(v) = probe(ctx, gi, "leaf", rule, input, expected, true, "leaf_newline_kind") {
                return Some(v);
            }
        }
    }
    // stack leaves: the texts of the spans are the texts consumed
    {
        let rule = idx("lf_stack");
        for (na, nb) in [(1usize, 1usize), (2, 1), (1, 3), (3, 2)] {
            let (a, b) = ("a".repeat(na), "b".repeat(nb));
            let input = format!("{a}-{b}-{b}-{b}{a}-{b}-{a}");
            ctx.ev.eval();
            let got = gi.g.probe("leaf", rule, &input).unwrap_or_default();
            let mut texts = vec![];
            for key in ["PEEK { span: Span { str: ", "PEEK_ALL { span: Span { str: ", "POP { span: Span { str: ", "POP_ALL { span: Span { str: "] {
                if let Some(p) = got.find(key) {
                    let rest = &got[p + key.len() + 1..];
                    texts.push(rest[..rest.find('"').unwrap_or(0)].to_string());
                }
            }
            let want = vec![b.clone(), format!("{b}{a}"), b.clone(), a.clone()];
            if texts != want {
                return Some(json!({"property": "C17", "grammar": gi.describe(), "rule": "lf_stack", "input": input, "probe": "leaf", "why": format!("span texts of PEEK, PEEK_ALL, POP, POP_ALL are {:?}, the texts consumed are {:?}", texts, want)}));
            }
            ctx.ev.nontrivial(fnv(input.as_bytes()));
            ctx.ev.count("class.leaf_stack_spans");
            ctx.ev.sample("leaf_stack_spans", json!({"rule": "lf_stack", "input": input, "texts": texts}));
        }
    }
    // skip-until from the runtime crate: stops before the first "ab" or "c", or at the end
    {
        let alpha = ['a', 'b', 'c', 'x'];
        let mut all = vec![String::new()];
        let mut frontier = vec![String::new()];
        for _ in 0..5 {
            let mut next = vec![];
            for s in &frontier {
                for c in alpha {
                    let mut t = s.clone();
                    t.push(c);
                    next.push(t);
                }
            }
            all.extend(next.iter().cloned());
            frontier = next;
        }
        for input in all {
            let stop = (0..=input.len()).find(|&i| input[i..].starts_with("ab") || input[i..].starts_with('c')).unwrap_or(input.len());
            let expected = Some(format!("0..{} {:?} rest={}", stop, &input[..stop], stop));
            if let Some(v) = probe(ctx, gi, "rt_skip", usize::MAX, &input, expected, stop > 0, "leaf_skip_until") {
                return Some(v);
            }
        }
    }
    ctx.ev.exhaustive = Some(true);
    None
}

pub fn replay(ctx: &mut Ctx, gi: &GInfo, doc: &Value) -> CaseResult {
    // the enumeration is deterministic and small: a replay re-runs the recorded probe and
    // compares it with the recorded expectation
    let what = doc["probe"].as_str().unwrap_or("choice");
    let rule = gi.rules.iter().position(|r| r.0 == doc["rule"].as_str().unwrap_or("")).unwrap_or(usize::MAX);
    let input = doc["input"].as_str().unwrap_or("");
    let why = doc["why"].as_str().unwrap_or("");
    let got = gi.g.probe(what, rule, input);
    let recorded_got = why.split(", expected ").next().unwrap_or("").replace("accessors give ", "");
    if format!("{:?}", got) == recorded_got {
        return violation(ctx, gi, rule.min(gi.rules.len() - 1), input, format!("accessors still give {:?}", got), json!({}));
    }
    CaseResult::Ok
}
