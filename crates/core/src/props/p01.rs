//! C01 — the typed parser recognises exactly what pest recognises, consuming the same prefix.

use crate::api::*;
use crate::common::show;
use crate::drive::*;
use crate::interp::{self, Cfg, StackKind};
use serde_json::{json, Value};

pub const RULE: &str = "cases: every rule of every corpus grammar (general, stack, atomicity, slice, repo families) as entry x inputs derived from the grammar by a tape-driven sentence generator with mutations, tails and random strings (<=64 chars). Oracle: pest_derive's parser on the same grammar where pest is defined (PestSim: no empty-stack panic, no missing restore), the reference interpreter with full backtracking elsewhere. Non-trivial = the parse consumed at least one character before succeeding or failing; distinct by (grammar, rule, input).";

/// What the specification says, and which oracle said it.
pub struct Expected {
    pub verdict: Option<usize>,
    pub oracle: &'static str,
    pub full: interp::Run,
    /// pest's observation when pest is the oracle
    pub pest: Option<PestObs>,
}

/// Compute the expected verdict for a whole-string partial parse.  None: the case is outside
/// the domain (not well-founded / budget).
pub fn expected(ctx: &mut Ctx, gi: &GInfo, rule: usize, input: &str) -> Option<Expected> {
    let name = &gi.rules[rule].0;
    let full = interp::run(gi.ir, &Cfg::default(), name, input, 0, input.len());
    match &full.outcome {
        interp::Outcome::NotWellFounded(_) => {
            ctx.ev.count("excluded.not_well_founded");
            return None;
        }
        interp::Outcome::Budget => {
            ctx.ev.count("excluded.step_budget");
            return None;
        }
        _ => {}
    }
    let spec = full.verdict().unwrap();
    let mut pest_defined = true;
    let mut pestsim_verdict = None;
    if gi.uses_stack {
        let ps = interp::run(gi.ir, &Cfg { stack: StackKind::PestSim, optimised: true, ..Cfg::default() }, name, input, 0, input.len());
        if !ps.defined() || ps.events.pest_panic || ps.events.pest_leak {
            pest_defined = false;
            ctx.ev.count("pest_undefined.by_pestsim");
        } else {
            pestsim_verdict = ps.verdict();
        }
    }
    if pest_defined {
        let p = gi.g.pest(rule, input);
        if p.panicked.is_some() {
            ctx.ev.count(if gi.uses_stack { "pest_undefined.panicked" } else { "model_disagreement.pest_panicked_without_stack" });
        } else {
            let pv = if p.ok { p.end } else { None };
            if p.ok && p.end.is_none() {
                ctx.ev.count("harness.pest_end_unknown");
            } else if gi.uses_stack && Some(pv) != pestsim_verdict {
                // my model of pest is wrong on this case: pest's answer is not trusted as
                // "defined", the specification oracle decides
                ctx.ev.count("model_disagreement.pestsim_vs_pest");
            } else {
                if pv != spec {
                    ctx.ev.count("model_disagreement.reference_vs_pest");
                    if ctx.ev.counter("model_disagreement.reference_vs_pest") <= 5 {
                        ctx.ev.sample("model_disagreement", json!({"grammar": gi.g.id(), "rule": name, "input": show(input), "pest": format!("{:?}", pv), "reference": format!("{:?}", spec), "text": gi.g.text()}));
                    }
                }
                return Some(Expected { verdict: pv, oracle: "pest", full, pest: Some(p) });
            }
        }
    }
    Some(Expected { verdict: spec, oracle: "reference", full, pest: None })
}

/// Classify a deviation of the typed parser against the open known findings.
pub fn classify(ctx: &Ctx, gi: &GInfo, rule: usize, input: &str, typed: Option<usize>) -> Option<&'static str> {
    let name = &gi.rules[rule].0;
    if ctx.open("K1") && (gi.ir.has_ws() || gi.ir.has_comment()) {
        let k1 = interp::run(gi.ir, &Cfg { k1: true, ..Cfg::default() }, name, input, 0, input.len());
        let spec = interp::run(gi.ir, &Cfg::default(), name, input, 0, input.len());
        if k1.defined() && k1.verdict() == Some(typed) && k1.verdict() != spec.verdict() {
            return Some("K1");
        }
    }
    if ctx.open("K2") && gi.uses_stack {
        let ts = interp::run(gi.ir, &Cfg { stack: StackKind::TypedSim, optimised: true, ..Cfg::default() }, name, input, 0, input.len());
        if ts.defined() && ts.verdict() == Some(typed) && ts.events.pest_leak {
            return Some("K2");
        }
    }
    None
}

pub fn check_input(ctx: &mut Ctx, gi: &GInfo, rule: usize, input: &str) -> CaseResult {
    ctx.ev.eval();
    let name = gi.rules[rule].0.clone();
    if let Ok(mut c) = ctx.current.lock() {
        *c = json!({"grammar": gi.describe(), "rule": name, "input": input}).to_string();
    }
    let exp = match expected(ctx, gi, rule, input) {
        Some(e) => e,
        None => return CaseResult::Ok,
    };
    let t = gi.g.typed(Req { rule, entry: Entry::ParsePartial, form: Form::Str, deep: false }, input);
    if let Some(p) = &t.panicked {
        return violation(ctx, gi, rule, input, format!("typed parser panicked: {}", p), json!({"expected": format!("{:?}", exp.verdict), "oracle": exp.oracle}));
    }
    let tv = if t.ok { t.end } else { None };
    // bookkeeping
    let ev = &exp.full.events;
    if ev.furthest > 0 {
        ctx.ev.nontrivial(hash_case(gi, rule, input, 0));
    }
    ctx.ev.count(&format!("oracle.{}", exp.oracle));
    let class = match (exp.verdict, ev.furthest > 0, ev.implicit_skips_nonempty > 0) {
        (Some(_), _, true) => "accepted_with_implicit_skip",
        (Some(e), _, _) if e > 0 => "accepted",
        (Some(_), _, _) => "accepted_empty",
        (None, true, _) => "rejected_after_progress",
        (None, false, _) => "rejected_at_once",
    };
    ctx.ev.count(&format!("class.{}", class));
    if ev.stack_ops > 0 {
        ctx.ev.count("class.with_stack_ops");
    }
    ctx.ev.count(&format!("family.{}", gi.g.family()));
    if tv == exp.verdict {
        if ev.furthest > 0 {
            ctx.ev.sample(class, json!({"grammar": gi.g.id(), "rule": name, "input": show(input), "verdict": format!("{:?}", tv), "oracle": exp.oracle}));
        }
        return CaseResult::Ok;
    }
    if let Some(k) = classify(ctx, gi, rule, input, tv) {
        ctx.ev.count(&format!("excluded.{}", k));
        return CaseResult::Known(k);
    }
    violation(ctx, gi, rule, input, format!("typed parser: {:?}, expected ({}): {:?}", tv, exp.oracle, exp.verdict), json!({"typed_error": t.err.map(|e| e.display)}))
}

pub fn case(ctx: &mut Ctx, gi: &GInfo, rule: usize, tape: &[u8]) -> CaseResult {
    let (input, _) = input_from(gi, rule, tape);
    check_input(ctx, gi, rule, &input)
}

pub fn run(world: &World, ctx: &mut Ctx) -> Option<Value> {
    ctx.ev.rule = RULE.to_string();
    let pairs = super::pairs(world, &[]);
    let total = ctx.tier.pick(500_000u64, 6_000_000u64);
    let n = super::per_pair(total, pairs.len(), 40, 20_000);
    if let Some(v) = run_reproducers(world, ctx, check_input) {
        return Some(v);
    }
    ctx.ev.extra.insert("grammar_rule_pairs".into(), json!(pairs.len()));
    ctx.ev.extra.insert("cases_per_pair".into(), json!(n));
    for (gi, rule) in pairs {
        // rules that reach stack operations get three times the cases: their failures need
        // a specific shape (which construct fails after which stack operation)
        let n = if gi.uses_stack && gi.ir.rule_reaches_stack(&gi.rules[rule].0) && gi.g.family() != "slice" { n * 3 } else { n };
        if let Some(v) = tape_cases(ctx, gi, rule, n, 48, case) {
            return Some(v);
        }
    }
    None
}

pub fn replay(ctx: &mut Ctx, gi: &GInfo, rule: usize, doc: &Value) -> CaseResult {
    check_input(ctx, gi, rule, doc["input"].as_str().unwrap_or(""))
}
