//! C11 — ill-formed grammars are rejected at generation time; sound ones terminate.

use crate::api::*;
use crate::common::show;
use crate::drive::*;
use crate::ir::{analyse, PestVerdict};
use serde_json::{json, Value};

pub const RULE: &str = "cases: (a) deliberately ill-formed grammars - a catalogue of direct and indirect left recursion (through optionals, predicates, silent rules, PUSH, stars), repetitions whose body cannot fail or cannot progress ((e*)*, (e?)*, (\"\")*, (!e)*, (SOI)*, (PUSH(\"\"))*, counted forms), unfailing non-last alternatives, non-progressing or unfailing WHITESPACE/COMMENT, {0} and {,0}, each over several terminals, with well-formed controls - plus seeded random AST mutations of valid corpus grammars (wrap in * / ?*, drop a guarding literal, redirect a reference to the enclosing rule, reorder or weaken alternatives) and the candidates pest rejected during corpus generation. For each, pest_meta's verdict (parse + consume_rules, computed by the harness) is compared with pest_typed_generator::derive_typed_parser under catch_unwind in a separate process: rejected by pest's validator <=> the generator panics; accepted => the emitted tokens parse as a Rust file. (b) every pest-valid grammar of the corpus must compile (diagnostics of the shard build are attributed to grammar modules). (c) bounded termination: every (grammar, rule, input) the reference interpreter finishes is parsed (partial, full, check) under a watchdog. Non-trivial = a grammar pest rejects, or a mutated grammar pest still accepts; distinct by grammar text.";

pub fn run(world: &World, ctx: &mut Ctx) -> Option<Value> {
    ctx.ev.rule = RULE.to_string();
    // (a) results of the generator library on the ill-formed family (written by verif_gen)
    let path = crate::common::work_dir().join("c11_gen.json");
    let doc: Value = match std::fs::read_to_string(&path).ok().and_then(|t| serde_json::from_str(&t).ok()) {
        Some(d) => d,
        None => {
            eprintln!("runner: work/c11_gen.json is missing (run through ./check): inconclusive");
            std::process::exit(2);
        }
    };
    for c in doc["cases"].as_array().cloned().unwrap_or_default() {
        ctx.ev.eval();
        let text = c["text"].as_str().unwrap_or("");
        let class = c["class"].as_str().unwrap_or("?");
        let panicked = c["generator_panicked"].as_bool().unwrap_or(false);
        let rust_ok = c["tokens_parse_as_rust"].as_bool().unwrap_or(false);
        let verdict = analyse(text);
        let bad = |why: String| Some(json!({"property": "C11", "kind": "generation", "grammar": {"id": "illformed", "text": text, "options": "", "family": "illformed"}, "rule": "", "input": "", "class": class, "why": why, "generator_message": c["message"]}));
        match &verdict {
            PestVerdict::Rejected(msg) => {
                ctx.ev.nontrivial(crate::common::fnv(text.as_bytes()));
                ctx.ev.count(&format!("rejected.{}", class.split('.').next().unwrap_or(class)));
                ctx.ev.sample(class, json!({"class": class, "grammar": show(text), "pest": msg.lines().last().unwrap_or("").trim(), "generator_panicked": panicked}));
                if !panicked {
                    return bad(format!("pest's validator rejects the grammar ({}) but the generator emitted code for it", msg.lines().last().unwrap_or("").trim()));
                }
            }
            PestVerdict::Accepted(_) => {
                if class.starts_with("mutation") {
                    ctx.ev.nontrivial(crate::common::fnv(text.as_bytes()));
                }
                ctx.ev.count(&format!("accepted.{}", class.split('.').next().unwrap_or(class)));
                if panicked {
                    return bad(format!("pest accepts the grammar but the generator panics: {}", c["message"].as_str().unwrap_or("")));
                }
                if !rust_ok {
                    return bad("pest accepts the grammar but the emitted tokens do not parse as a Rust file".into());
                }
            }
            PestVerdict::SyntaxError(_) | PestVerdict::NameError(_) => {
                ctx.ev.count("outside_statement.syntax_or_name_error");
            }
        }
    }
    // (b) compile failures of corpus grammars
    if let Some(v) = super::compile_failures(ctx, &["K5", "K7"]) {
        return Some(v);
    }
    ctx.ev.extra.insert("corpus_grammars_compiled".into(), json!(world.grammars.len()));
    // (c) bounded termination over the whole corpus (the watchdog turns a hang into a violation)
    let pairs = super::pairs(world, &[]);
    let total = ctx.tier.pick(100_000u64, 2_000_000u64);
    let n = super::per_pair(total, pairs.len(), 20, 20_000);
    ctx.ev.extra.insert("termination_cases_per_pair".into(), json!(n));
    for (gi, rule) in pairs {
        if let Some(v) = tape_cases(ctx, gi, rule, n, 64, |ctx, gi, rule, tape| {
            let (input, _) = input_from(gi, rule, tape);
            ctx.ev.eval();
            let name = &gi.rules[rule].0;
            let r = crate::interp::run(gi.ir, &crate::interp::Cfg::default(), name, &input, 0, input.len());
            if !r.defined() {
                ctx.ev.count("termination.excluded_not_well_founded");
                return CaseResult::Ok;
            }
            if let Ok(mut c) = ctx.current.lock() {
                *c = json!({"grammar": gi.describe(), "rule": name, "input": input, "kind": "termination"}).to_string();
            }
            for entry in [Entry::ParsePartial, Entry::ParseFull, Entry::CheckFull] {
                let _ = gi.g.typed(Req { rule, entry, form: Form::Str, deep: false }, &input);
            }
            ctx.ev.count("termination.parses_returned");
            CaseResult::Ok
        }) {
            return Some(v);
        }
    }
    None
}

/// Replay of a termination case: run it; the runner's watchdog decides.
pub fn replay(ctx: &mut Ctx, gi: &GInfo, rule: usize, doc: &Value) -> CaseResult {
    let input = doc["input"].as_str().unwrap_or("");
    if let Ok(mut c) = ctx.current.lock() {
        *c = doc.to_string();
    }
    for entry in [Entry::ParsePartial, Entry::ParseFull, Entry::CheckFull] {
        let _ = gi.g.typed(Req { rule, entry, form: Form::Str, deep: false }, input);
    }
    CaseResult::Ok
}
