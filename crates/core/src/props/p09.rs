//! C09 — parsing is total and keeps every offset on a UTF-8 boundary inside the input.

use crate::api::*;
use crate::common::{fnv, show};
use crate::drive::*;
use crate::sentence::Tape;
use serde_json::{json, Value};
use std::io::Write;

pub const RULE: &str = "cases: every rule of every corpus grammar x inputs over alphabets mixing 1-, 2-, 3- and 4-byte characters, CR/LF and the grammar's own literals (grammar-derived sentences with multi-byte substitutions) x every entry point (try_parse_partial, try_check_partial, try_parse, try_check, TypedParser::try_parse/try_check, the _with variants) x input forms (&str; Position / Span with cuts next to multi-byte characters for the grammars compiled with all forms). Every call runs under catch_unwind; the returned cursor, every token span reachable through the Pair API (nested in its parent, as_str() taken), the error location and its line/column must lie in the given range on character boundaries. The same case list is executed by a release-like build (opt-level 3, debug assertions off, unchecked slicing live) of a subset of the corpus and the two observation logs are compared line by line. Non-trivial = the input holds a multi-byte character or the form is a sub-range; distinct by (grammar, rule, host, form).";

const ENTRIES: [Entry; 8] = [Entry::ParsePartial, Entry::CheckPartial, Entry::ParseFull, Entry::CheckFull, Entry::ParserParse, Entry::ParserCheck, Entry::ParsePartialWith, Entry::CheckFullWith];

pub struct Dump {
    pub file: Option<std::io::BufWriter<std::fs::File>>,
}

fn digest(o: &Obs) -> u64 {
    fnv(format!("{:?}|{}|{:?}|{:?}|{:?}|{:?}|{:?}", o.panicked.is_some(), o.ok, o.end, o.tokens, o.err.as_ref().map(|e| (&e.display, e.pos)), o.stack, o.tracker).as_bytes())
}

pub fn check_case(ctx: &mut Ctx, gi: &GInfo, rule: usize, host: &str, form: Form, dump: &mut Dump) -> CaseResult {
    ctx.ev.eval();
    let name = gi.rules[rule].0.clone();
    let (lo, hi) = form.bounds(host.len());
    // outside the domain: not well-founded cases (their parses need not return)
    let r = crate::interp::run(gi.ir, &crate::interp::Cfg::default(), &name, host, lo, hi);
    if !r.defined() {
        ctx.ev.count("excluded.not_well_founded_or_budget");
        return CaseResult::Ok;
    }
    if let Ok(mut c) = ctx.current.lock() {
        *c = json!({"grammar": gi.describe(), "rule": name, "input": host, "form": format!("{:?}", form)}).to_string();
    }
    if let Some(f) = dump.file.as_mut() {
        // journal: if the process dies in this case (unchecked slicing in a release-like
        // build), the last line names it
        let _ = writeln!(f, "BEGIN\t{}\t{}\t{:?}\t{}", gi.g.id(), name, form, serde_json::to_string(host).unwrap_or_default());
        let _ = f.flush();
    }
    let mut line = 0u64;
    for entry in ENTRIES {
        if matches!(entry, Entry::ParserParse | Entry::ParserCheck) && form != Form::Str {
            continue;
        }
        let o = gi.g.typed(Req { rule, entry, form, deep: false }, host);
        line = line.wrapping_mul(1099511628211).wrapping_add(digest(&o));
        let bad = |why: String| violation(ctx, gi, rule, host, why, json!({"form": format!("{:?}", form), "entry": format!("{:?}", entry)}));
        if let Some(p) = &o.panicked {
            return bad(format!("{:?} panicked: {}", entry, p));
        }
        let inside = |x: usize| lo <= x && x <= hi && host.is_char_boundary(x);
        if let Some(e) = o.end {
            if !inside(e) {
                return bad(format!("{:?} returned cursor {} outside {}..{} or off a character boundary", entry, e, lo, hi));
            }
        }
        if o.spans_ok == Some(false) {
            return bad(format!("{:?}: a token span is out of range, off a boundary, not nested, or its text cannot be taken: {:?}", entry, o.tokens));
        }
        if let Some(err) = &o.err {
            if err.display_panicked {
                return bad(format!("{:?}: rendering the error panicked: {}", entry, err.display));
            }
            if !inside(err.pos) {
                return bad(format!("{:?}: error location {} outside {}..{} or off a character boundary", entry, err.pos, lo, hi));
            }
            let lc = pest::Position::new(host, err.pos).map(|p| p.line_col());
            if lc != Some(err.line_col) {
                return bad(format!("{:?}: error line/column {:?} does not belong to offset {} ({:?})", entry, err.line_col, err.pos, lc));
            }
        }
        if let Some(t) = &o.tracker {
            if !inside(t.pos) {
                return bad(format!("{:?}: tracker position {} outside the input range or off a boundary", entry, t.pos));
            }
        }
        if let Some(st) = &o.stack {
            if st.iter().any(|&(a, b)| !(inside(a) && inside(b) && a <= b)) {
                return bad(format!("{:?}: a stack span is outside the input range: {:?}", entry, st));
            }
        }
    }
    if let Some(f) = dump.file.as_mut() {
        let _ = writeln!(f, "{}\t{}\t{:016x}\t{:?}\t{:016x}", gi.g.id(), name, fnv(host.as_bytes()), form, line);
    }
    let multibyte = !host.is_ascii();
    if multibyte || form != Form::Str {
        ctx.ev.nontrivial(hash_case(gi, rule, host, fnv(format!("{:?}", form).as_bytes())));
        let class = match (multibyte, form) {
            (true, Form::Str) => "multibyte_whole_string",
            (true, _) => "multibyte_sub_input",
            (false, _) => "ascii_sub_input",
        };
        ctx.ev.count(&format!("class.{}", class));
        ctx.ev.sample(class, json!({"grammar": gi.g.id(), "rule": name, "host": show(host), "form": format!("{:?}", form)}));
    }
    CaseResult::Ok
}

const MB: [char; 8] = ['é', 'ß', '中', '龥', '😀', '\u{301}', '\r', '\n'];

pub fn gen_case(gi: &GInfo, rule: usize, tape: &[u8]) -> (String, Form) {
    let mut t = Tape::new(tape);
    let name = &gi.rules[rule].0;
    let base = gi.sg.input(name, &mut t);
    let mut cs: Vec<char> = base.chars().take(40).collect();
    // multi-byte substitutions / insertions
    for _ in 0..t.below(4) {
        let at = t.below(cs.len() + 1);
        let c = MB[t.below(MB.len())];
        if at < cs.len() && t.chance(1, 2) {
            cs[at] = c;
        } else {
            cs.insert(at.min(cs.len()), c);
        }
    }
    let body: String = cs.into_iter().collect();
    if !gi.g.forms() {
        return (body, Form::Str);
    }
    match t.below(3) {
        0 => (body, Form::Str),
        k => {
            let pre: String = (0..t.below(3)).map(|_| MB[t.below(5)]).collect();
            let suf: String = (0..t.below(3)).map(|_| MB[t.below(5)]).collect();
            let host = format!("{}{}{}", pre, body, suf);
            let bounds: Vec<usize> = host.char_indices().map(|(i, _)| i).chain(std::iter::once(host.len())).collect();
            let (a, b) = if t.chance(1, 3) {
                let i = t.below(bounds.len());
                let j = t.below(bounds.len());
                (bounds[i.min(j)], bounds[i.max(j)])
            } else {
                (pre.len(), pre.len() + body.len())
            };
            if k == 1 {
                (host, Form::Pos(a))
            } else {
                (host, Form::Span(a, b))
            }
        }
    }
}

pub fn run(world: &World, ctx: &mut Ctx, dump_path: Option<&str>) -> Option<Value> {
    ctx.ev.rule = RULE.to_string();
    let pairs = super::pairs(world, &[]);
    let total = ctx.tier.pick(200_000u64, 3_000_000u64);
    let all_pairs = pairs.len();
    // the per-pair count must not depend on which subset of the corpus this binary holds
    let n = match std::env::var("VERIF_C09_PER_PAIR").ok().and_then(|s| s.parse().ok()) {
        Some(n) => n,
        None => super::per_pair(total, all_pairs, 30, 20_000),
    };
    ctx.ev.extra.insert("grammar_rule_pairs".into(), json!(all_pairs));
    ctx.ev.extra.insert("cases_per_pair".into(), json!(n));
    let mut dump = Dump { file: dump_path.map(|p| std::io::BufWriter::new(std::fs::File::create(p).expect("dump file"))) };
    for (gi, rule) in pairs {
        let d = std::cell::RefCell::new(&mut dump);
        if let Some(v) = tape_cases(ctx, gi, rule, n, 64, |ctx, gi, rule, tape| {
            let (host, form) = gen_case(gi, rule, tape);
            check_case(ctx, gi, rule, &host, form, &mut d.borrow_mut())
        }) {
            return Some(v);
        }
    }
    if let Some(f) = dump.file.as_mut() {
        let _ = f.flush();
    }
    None
}

/// Compare the observation logs of the debug-like and the release-like build and amend the
/// evidence file of C09.  Returns a violation document on the first difference.
pub fn compare_dumps(debug_path: &str, release_path: &str, release_status: &str) -> Option<Value> {
    use std::collections::HashMap;
    let load = |p: &str| -> (HashMap<String, String>, Option<String>) {
        let mut m = HashMap::new();
        let mut last_begin = None;
        let mut open = false;
        for l in std::fs::read_to_string(p).unwrap_or_default().lines() {
            if let Some(rest) = l.strip_prefix("BEGIN\t") {
                last_begin = Some(rest.to_string());
                open = true;
                continue;
            }
            open = false;
            if let Some((k, v)) = l.rsplit_once('\t') {
                m.insert(k.to_string(), v.to_string());
            }
        }
        (m, if open { last_begin } else { None })
    };
    let (dbg, _) = load(debug_path);
    let (rel, rel_open) = load(release_path);
    let ev_path = crate::common::verif_root().join("evidence").join("C09.json");
    let mut ev: Value = std::fs::read_to_string(&ev_path).ok().and_then(|t| serde_json::from_str(&t).ok()).unwrap_or(json!({}));
    let mut compared = 0u64;
    let mut violation = None;
    if release_status != "0" {
        let case = rel_open.clone().unwrap_or_default();
        let parts: Vec<&str> = case.split('\t').collect();
        violation = Some(json!({"property": "C09", "kind": "release_crash", "why": format!("the release-like build of the runner died (status {}) while executing case {}", release_status, case),
            "grammar": {"id": parts.first().copied().unwrap_or("")}, "rule": parts.get(1).copied().unwrap_or(""), "input": parts.get(3).and_then(|h| serde_json::from_str::<String>(h).ok()).unwrap_or_default(), "detail": {"form": parts.get(2).copied().unwrap_or("Str")}}));
    }
    if violation.is_none() {
        for (k, v) in &rel {
            if let Some(d) = dbg.get(k) {
                compared += 1;
                if d != v {
                    let parts: Vec<&str> = k.split('\t').collect();
                    violation = Some(json!({"property": "C09", "kind": "profile_difference", "why": format!("debug-like and release-like builds observe different results for case {}", k), "grammar": {"id": parts.first().copied().unwrap_or("")}, "rule": parts.get(1).copied().unwrap_or("")}));
                    break;
                }
            }
        }
    }
    if let Some(cov) = ev.get_mut("coverage").and_then(|c| c.as_object_mut()) {
        cov.insert("release_like".into(), json!({"cases_logged_by_release_build": rel.len(), "cases_compared_with_debug_build": compared, "release_runner_status": release_status, "identical": violation.is_none()}));
    }
    if violation.is_some() {
        ev["violations"] = json!(1);
    }
    let _ = std::fs::write(&ev_path, serde_json::to_string_pretty(&ev).unwrap_or_default());
    violation
}

pub fn replay(ctx: &mut Ctx, gi: &GInfo, rule: usize, doc: &Value) -> CaseResult {
    let form = super::p03::parse_form(&doc["detail"]["form"]);
    check_case(ctx, gi, rule, doc["input"].as_str().unwrap_or(""), form, &mut Dump { file: None })
}
