//! C02 — the pair tree equals pest's, minus the documented pruning under atomic rules.

use super::p01;
use crate::api::*;
use crate::common::show;
use crate::drive::*;
use crate::interp::{self, render_toks, strip_skip_rule_bodies, token_forest, Cfg, Emission, Tok};
use crate::ir::{Grammar, Kind};
use serde_json::{json, Value};

pub const RULE: &str = "cases: as C01, restricted to inputs the rule accepts. The thin token forest of the typed result (Pairs::self_or_children) is compared with pest's Pairs after removing the descendants of every token whose rule is @ or $ (rule kinds taken from the grammar) where pest is defined, and with the token projection of the reference derivation (three-way agreement) - the reference alone elsewhere. Non-trivial = the expected forest has a child token, or >=2 top-level tokens, or a predicate / atomic rule / implicit skip lies on the derivation; distinct by (grammar, rule, input).";

pub fn prune(g: &Grammar, toks: &[Tok]) -> Vec<Tok> {
    toks.iter()
        .map(|t| {
            let atomic = matches!(g.rule(&t.rule).map(|r| r.kind), Some(Kind::Atomic) | Some(Kind::Compound));
            Tok { kids: if atomic { vec![] } else { prune(g, &t.kids) }, ..t.clone() }
        })
        .collect()
}

pub fn check_input(ctx: &mut Ctx, gi: &GInfo, rule: usize, input: &str) -> CaseResult {
    ctx.ev.eval();
    let name = gi.rules[rule].0.clone();
    let exp = match p01::expected(ctx, gi, rule, input) {
        Some(e) => e,
        None => return CaseResult::Ok,
    };
    let (end, deriv) = match exp.full.matched() {
        Some(m) => m,
        None => {
            ctx.ev.count("skipped.rejected_input");
            return CaseResult::Ok;
        }
    };
    let t = gi.g.typed(Req { rule, entry: Entry::ParsePartial, form: Form::Str, deep: false }, input);
    if t.panicked.is_some() || !t.ok || t.end != exp.verdict || exp.verdict != Some(end) {
        // acceptance differs: C01's business (known findings included)
        ctx.ev.count("skipped.verdict_is_c01s_business");
        return CaseResult::Ok;
    }
    let typed = t.tokens.clone().unwrap_or_default();
    let spec = token_forest(gi.ir, deriv, Emission::Spec);
    let expected = match &exp.pest {
        Some(p) => {
            let pruned = prune(gi.ir, &p.tokens);
            if pruned != spec {
                ctx.ev.count("model_disagreement.reference_tokens_vs_pest");
                if ctx.ev.counter("model_disagreement.reference_tokens_vs_pest") <= 3 {
                    ctx.ev.sample("model_disagreement", json!({"grammar": gi.g.id(), "rule": name, "input": show(input), "pest": render_toks(&pruned), "reference": render_toks(&spec), "text": gi.g.text()}));
                }
            }
            pruned
        }
        None => spec,
    };
    let ev = &exp.full.events;
    let n_tokens: usize = expected.iter().map(|t| t.count()).sum();
    let nontrivial = expected.iter().any(|t| !t.kids.is_empty()) || expected.len() >= 2 || ev.predicates > 0 || ev.implicit_skips_nonempty > 0;
    if nontrivial {
        ctx.ev.nontrivial(hash_case(gi, rule, input, 2));
    }
    ctx.ev.count(if n_tokens >= 3 { "class.three_or_more_tokens" } else if n_tokens >= 1 { "class.one_or_two_tokens" } else { "class.no_tokens" });
    if ev.predicates > 0 {
        ctx.ev.count("class.with_predicate");
    }
    if ev.implicit_skips_nonempty > 0 {
        ctx.ev.count("class.with_implicit_skip");
    }
    if typed == expected {
        if nontrivial {
            ctx.ev.sample(if n_tokens >= 3 { "three_or_more_tokens" } else { "small_tree" }, json!({"grammar": gi.g.id(), "rule": name, "input": show(input), "tokens": render_toks(&typed), "oracle": exp.oracle}));
        }
        return CaseResult::Ok;
    }
    // known findings: K3 (tokens inside skip-rule bodies), K1 (skip rules not atomic)
    let typed_proj = token_forest(gi.ir, deriv, Emission::Typed);
    if ctx.open("K3") && typed == typed_proj && strip_skip_rule_bodies(&typed) == strip_skip_rule_bodies(&expected) {
        ctx.ev.count("excluded.K3");
        return CaseResult::Known("K3");
    }
    if ctx.open("K1") {
        let k1 = interp::run(gi.ir, &Cfg { k1: true, ..Cfg::default() }, &name, input, 0, input.len());
        if let Some((_, d)) = k1.matched() {
            if typed == token_forest(gi.ir, d, Emission::Typed) && d != deriv {
                ctx.ev.count("excluded.K1");
                return CaseResult::Known("K1");
            }
        }
    }
    violation(ctx, gi, rule, input, format!("typed tokens: {} ; expected ({}): {}", render_toks(&typed), exp.oracle, render_toks(&expected)), json!({}))
}

pub fn case(ctx: &mut Ctx, gi: &GInfo, rule: usize, tape: &[u8]) -> CaseResult {
    let (input, _) = input_from(gi, rule, tape);
    check_input(ctx, gi, rule, &input)
}

pub fn run(world: &World, ctx: &mut Ctx) -> Option<Value> {
    ctx.ev.rule = RULE.to_string();
    if let Some(v) = run_reproducers(world, ctx, check_input) {
        return Some(v);
    }
    let pairs = super::pairs(world, &[]);
    let total = ctx.tier.pick(400_000u64, 6_000_000u64);
    let n = super::per_pair(total, pairs.len(), 40, 20_000);
    ctx.ev.extra.insert("grammar_rule_pairs".into(), json!(pairs.len()));
    ctx.ev.extra.insert("cases_per_pair".into(), json!(n));
    for (gi, rule) in pairs {
        // rules that reach stack operations get three times the cases: their failures need
        // a specific shape (which construct fails after which stack operation)
        let n = if gi.uses_stack && gi.ir.rule_reaches_stack(&gi.rules[rule].0) && gi.g.family() != "slice" { n * 3 } else { n };
        if let Some(v) = tape_cases(ctx, gi, rule, n, 48, case) {
            return Some(v);
        }
    }
    None
}
