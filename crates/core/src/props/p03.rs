//! C03 — the check-only entry points give the same verdict, offset and error as parsing.

use crate::api::*;
use crate::common::show;
use crate::drive::*;
use crate::interp::{self, Cfg};
use crate::sentence::Tape;
use serde_json::{json, Value};

pub const RULE: &str = "cases: every rule of every corpus grammar x grammar-derived inputs x input forms (&str always; Position and Span sub-inputs of a host string for the grammars compiled with all forms). Metamorphic oracle on the typed parser alone: try_check_partial vs try_parse_partial (verdict, returned cursor), try_check vs try_parse (verdict), on failure identical Debug and Display of the pest::error::Error; the same for the _with entry points with an own Stack and Tracker (final stack, tracker position and attempt lists). Non-trivial = the reference derivation has an implicit skip, a repetition with >=2 iterations, a backtracking choice or a stack operation, or the parse fails after progress; distinct by (grammar, rule, host, form).";

fn same_err(a: &Option<ErrObs>, b: &Option<ErrObs>) -> bool {
    a == b
}

pub fn check_forms(ctx: &mut Ctx, gi: &GInfo, rule: usize, host: &str, form: Form) -> CaseResult {
    ctx.ev.eval();
    let name = gi.rules[rule].0.clone();
    let (lo, hi) = form.bounds(host.len());
    let full = interp::run(gi.ir, &Cfg::default(), &name, host, lo, hi);
    if !full.defined() {
        ctx.ev.count("excluded.not_well_founded_or_budget");
        return CaseResult::Ok;
    }
    let q = |entry: Entry| gi.g.typed(Req { rule, entry, form, deep: false }, host);
    let pairs = [
        (Entry::ParsePartial, Entry::CheckPartial),
        (Entry::ParseFull, Entry::CheckFull),
        (Entry::ParsePartialWith, Entry::CheckPartialWith),
        (Entry::ParseFullWith, Entry::CheckFullWith),
    ];
    for (pe, ce) in pairs {
        let p = q(pe);
        let c = q(ce);
        let why = if p.panicked.is_some() || c.panicked.is_some() {
            Some(format!("panic: parse {:?} check {:?}", p.panicked, c.panicked))
        } else if p.ok != c.ok {
            Some(format!("{:?} ok={} but {:?} ok={}", pe, p.ok, ce, c.ok))
        } else if p.end != c.end {
            Some(format!("{:?} stops at {:?} but {:?} at {:?}", pe, p.end, ce, c.end))
        } else if !same_err(&p.err, &c.err) {
            Some(format!("error reports differ: {:?} vs {:?}", p.err.as_ref().map(|e| &e.display), c.err.as_ref().map(|e| &e.display)))
        } else if p.stack != c.stack {
            Some(format!("final stacks differ: {:?} vs {:?}", p.stack, c.stack))
        } else if p.tracker != c.tracker {
            Some(format!("tracker reports differ: {:?} vs {:?}", p.tracker, c.tracker))
        } else {
            None
        };
        if let Some(why) = why {
            return violation(ctx, gi, rule, host, why, json!({"form": format!("{:?}", form), "entries": format!("{:?}/{:?}", pe, ce)}));
        }
    }
    let ev = &full.events;
    let failed_after_progress = full.matched().is_none() && ev.furthest > lo;
    if ev.implicit_skips_nonempty > 0 || ev.rep_iterations_max >= 2 || ev.choice_backtracks > 0 || ev.stack_ops > 0 || failed_after_progress {
        ctx.ev.nontrivial(hash_case(gi, rule, host, crate::common::fnv(format!("{:?}", form).as_bytes())));
        let class = if failed_after_progress { "fails_after_progress" } else if ev.stack_ops > 0 { "stack_operation" } else if ev.implicit_skips_nonempty > 0 { "implicit_skip" } else { "repetition_or_backtracking" };
        ctx.ev.count(&format!("class.{}", class));
        ctx.ev.sample(class, json!({"grammar": gi.g.id(), "rule": name, "host": show(host), "form": format!("{:?}", form), "reference": format!("{:?}", full.verdict())}));
    }
    ctx.ev.count(match form {
        Form::Str => "form.str",
        Form::Pos(_) => "form.position",
        Form::Span(_, _) => "form.span",
    });
    CaseResult::Ok
}

/// host string and form from a tape: sentence embedded in a host for sub-input forms
pub fn host_and_form(gi: &GInfo, rule: usize, tape: &[u8]) -> (String, Form) {
    let mut t = Tape::new(tape);
    let body: String = gi.sg.input(&gi.rules[rule].0, &mut t).chars().take(48).collect();
    if !gi.g.forms() {
        return (body, Form::Str);
    }
    match t.below(3) {
        0 => (body, Form::Str),
        k => {
            let prefix: String = gi.sg.random_string(&mut t).chars().take(5).collect();
            let suffix: String = if t.chance(1, 2) { gi.sg.sentence(&gi.rules[rule].0, &mut t).chars().take(6).collect() } else { gi.sg.random_string(&mut t).chars().take(5).collect() };
            let a = prefix.len();
            let b = a + body.len();
            let host = format!("{}{}{}", prefix, body, suffix);
            if k == 1 {
                (host, Form::Pos(a))
            } else {
                (host, Form::Span(a, b))
            }
        }
    }
}

pub fn case(ctx: &mut Ctx, gi: &GInfo, rule: usize, tape: &[u8]) -> CaseResult {
    let (host, form) = host_and_form(gi, rule, tape);
    check_forms(ctx, gi, rule, &host, form)
}

pub fn run(world: &World, ctx: &mut Ctx) -> Option<Value> {
    ctx.ev.rule = RULE.to_string();
    let pairs = super::pairs(world, &[]);
    let total = ctx.tier.pick(300_000u64, 4_000_000u64);
    let n = super::per_pair(total, pairs.len(), 30, 20_000);
    ctx.ev.extra.insert("grammar_rule_pairs".into(), json!(pairs.len()));
    ctx.ev.extra.insert("cases_per_pair".into(), json!(n));
    for (gi, rule) in pairs {
        // rules that reach stack operations get three times the cases: their failures need
        // a specific shape (which construct fails after which stack operation)
        let n = if gi.uses_stack && gi.ir.rule_reaches_stack(&gi.rules[rule].0) && gi.g.family() != "slice" { n * 3 } else { n };
        if let Some(v) = tape_cases(ctx, gi, rule, n, 56, case) {
            return Some(v);
        }
    }
    None
}

pub fn replay(ctx: &mut Ctx, gi: &GInfo, rule: usize, doc: &Value) -> CaseResult {
    let form = parse_form(&doc["detail"]["form"]);
    check_forms(ctx, gi, rule, doc["input"].as_str().unwrap_or(""), form)
}

pub fn parse_form(v: &Value) -> Form {
    let s = v.as_str().unwrap_or("Str");
    let nums: Vec<usize> = s.split(|c: char| !c.is_ascii_digit()).filter(|x| !x.is_empty()).filter_map(|x| x.parse().ok()).collect();
    if s.starts_with("Pos") && nums.len() == 1 {
        Form::Pos(nums[0])
    } else if s.starts_with("Span") && nums.len() == 2 {
        Form::Span(nums[0], nums[1])
    } else {
        Form::Str
    }
}
