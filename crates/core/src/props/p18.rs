//! C18 — parse results are deterministic values, stable under clone, eq and hash.

use crate::api::*;
use crate::common::{fnv, show};
use crate::drive::*;
use crate::sentence::Tape;
use serde_json::{json, Value};

pub const RULE: &str = "cases: every rule of every corpus grammar x (a) the same input object parsed twice, (b) for the grammars compiled with all input forms: pairs of sub-ranges of one host String - the same text at two offsets, a text and a late mutation of it (last characters, a skipped blank more or less), &str vs the full Span, the same range twice - and (c) histories: a probe parse repeated after a generated sequence of other parses (other rules, other inputs, failing ones) in the same process. Oracle: a==b exactly when the Debug renderings are identical, a!=b is its negation, a==b implies equal DefaultHasher digests, x.clone()==x with equal hash and Debug, and the repeated probe yields the identical observation (verdict, cursor, tokens, Debug, hash, error text). Non-trivial = a pair whose Debug texts differ but share a prefix of at least half their length, or a history of >=3 intervening parses; distinct by (grammar, rule, host, forms).";

fn common_prefix(a: &str, b: &str) -> usize {
    a.bytes().zip(b.bytes()).take_while(|(x, y)| x == y).count()
}

pub fn check_pair(ctx: &mut Ctx, gi: &GInfo, rule: usize, host: &str, a: Form, b: Form) -> CaseResult {
    ctx.ev.eval();
    let name = gi.rules[rule].0.clone();
    for f in [a, b] {
        let (lo, hi) = f.bounds(host.len());
        if !well_founded(ctx, gi, rule, host, lo, hi) {
            return CaseResult::Ok;
        }
    }
    let o = gi.g.typed_pair(rule, host, a, b);
    let detail = json!({"a": format!("{:?}", a), "b": format!("{:?}", b)});
    if let Some(p) = &o.panicked {
        if p.starts_with("harness") {
            return CaseResult::Ok;
        }
        return violation(ctx, gi, rule, host, format!("comparison panicked: {}", p), detail);
    }
    if !o.both_ok {
        ctx.ev.count("skipped.not_both_accepted");
        return CaseResult::Ok;
    }
    if o.eq != o.debug_equal {
        return violation(ctx, gi, rule, host, format!("== gives {} but the Debug renderings are {}", o.eq, if o.debug_equal { "identical" } else { "different" }), json!({"a": format!("{:?}", a), "b": format!("{:?}", b), "debug_a": o.debug_a, "debug_b": o.debug_b}));
    }
    if o.ne == o.eq {
        return violation(ctx, gi, rule, host, format!("!= gives {} while == gives {}", o.ne, o.eq), detail);
    }
    if o.eq && !o.hash_equal {
        return violation(ctx, gi, rule, host, "equal results hash differently".into(), detail);
    }
    if a == b && !o.eq {
        return violation(ctx, gi, rule, host, "parsing the same input object twice gives unequal results".into(), detail);
    }
    if !o.debug_equal {
        let cp = common_prefix(&o.debug_a, &o.debug_b);
        if cp * 2 >= o.debug_a.len().min(o.debug_b.len()) {
            ctx.ev.nontrivial(hash_case(gi, rule, host, fnv(format!("{:?}{:?}", a, b).as_bytes())));
            ctx.ev.count("class.unequal_with_long_common_prefix");
            ctx.ev.sample("unequal_with_long_common_prefix", json!({"grammar": gi.g.id(), "rule": name, "host": show(host), "a": format!("{:?}", a), "b": format!("{:?}", b), "common_prefix_bytes": cp, "debug_len": o.debug_a.len()}));
        } else {
            ctx.ev.count("class.unequal");
        }
    } else {
        ctx.ev.count(if a == b { "class.same_input_twice_equal" } else { "class.equal_through_different_forms" });
    }
    CaseResult::Ok
}

pub fn case_pair(ctx: &mut Ctx, gi: &GInfo, rule: usize, tape: &[u8]) -> CaseResult {
    let mut t = Tape::new(tape);
    let name = &gi.rules[rule].0;
    let body1: String = gi.sg.sentence(name, &mut t).chars().take(30).collect();
    if !gi.g.forms() {
        return check_pair(ctx, gi, rule, &body1, Form::Str, Form::Str);
    }
    let body2: String = match t.below(5) {
        0 => body1.clone(),
        4 => {
            // early mutation: only the first character differs (first element of a sequence)
            let mut cs: Vec<char> = body1.chars().collect();
            if let Some(f) = cs.first_mut() {
                let c = gi.sg.alpha[t.below(gi.sg.alpha.len())];
                *f = if c == *f { if c.is_ascii_lowercase() { c.to_ascii_uppercase() } else { 'b' } } else { c };
            }
            cs.into_iter().collect()
        }
        1 => {
            // late mutation: change / drop / add near the end
            let mut cs: Vec<char> = body1.chars().collect();
            match t.below(3) {
                0 => {
                    cs.pop();
                }
                1 => cs.push(gi.sg.alpha[t.below(gi.sg.alpha.len())]),
                _ => {
                    if let Some(l) = cs.last_mut() {
                        *l = gi.sg.alpha[t.below(gi.sg.alpha.len())];
                    }
                }
            }
            cs.into_iter().collect()
        }
        2 => {
            // one blank more somewhere (changes only a skipped item where blanks are skipped)
            let mut cs: Vec<char> = body1.chars().collect();
            let at = t.below(cs.len() + 1);
            cs.insert(at, ' ');
            cs.into_iter().collect()
        }
        _ => gi.sg.mutate(&body1, &mut t).chars().take(30).collect(),
    };
    let host = format!("{}\u{1}{}", body1, body2);
    let (a0, a1) = (0, body1.len());
    let (b0, b1) = (body1.len() + 1, host.len());
    let r = match t.below(4) {
        0 => check_pair(ctx, gi, rule, &host, Form::Span(a0, a1), Form::Span(a0, a1)),
        1 => check_pair(ctx, gi, rule, &body1, Form::Str, Form::Span(0, body1.len())),
        _ => check_pair(ctx, gi, rule, &host, Form::Span(a0, a1), Form::Span(b0, b1)),
    };
    if !matches!(r, CaseResult::Ok) {
        return r;
    }
    check_pair(ctx, gi, rule, &host, Form::Span(a0, a1), Form::Pos(a0))
}

/// histories: probe, history of other parses, probe again
pub fn case_history(ctx: &mut Ctx, world: &World, gi: &GInfo, rule: usize, tape: &[u8]) -> CaseResult {
    ctx.ev.eval();
    let mut t = Tape::new(tape);
    let name = gi.rules[rule].0.clone();
    let input: String = gi.sg.input(&name, &mut t).chars().take(40).collect();
    if !well_founded(ctx, gi, rule, &input, 0, input.len()) {
        return CaseResult::Ok;
    }
    let probe = |entry: Entry| gi.g.typed(Req { rule, entry, form: Form::Str, deep: true }, &input);
    let before: Vec<Obs> = [Entry::ParsePartial, Entry::ParseFull, Entry::CheckFull].iter().map(|e| probe(*e)).collect();
    let n = t.below(6);
    let mut hist = vec![];
    for _ in 0..n {
        // other grammar or the same one, any rule, any entry
        let og = if t.chance(1, 2) { gi } else { &world.grammars[t.below(world.grammars.len())] };
        let or = t.below(og.rules.len());
        let oin: String = og.sg.input(&og.rules[or].0, &mut t).chars().take(30).collect();
        let entry = [Entry::ParsePartial, Entry::ParseFull, Entry::CheckPartial, Entry::CheckFull, Entry::ParsePartialWith][t.below(5)];
        if well_founded(ctx, og, or, &oin, 0, oin.len()) {
            let o = og.g.typed(Req { rule: or, entry, form: Form::Str, deep: false }, &oin);
            hist.push(json!({"grammar": og.g.id(), "rule": og.rules[or].0, "input": show(&oin), "entry": format!("{:?}", entry), "ok": o.ok}));
        }
    }
    let after: Vec<Obs> = [Entry::ParsePartial, Entry::ParseFull, Entry::CheckFull].iter().map(|e| probe(*e)).collect();
    if before != after {
        return violation(ctx, gi, rule, &input, "a repeated parse gives a different observation after a history of other parses".into(), json!({"history": hist, "before": format!("{:?}", before), "after": format!("{:?}", after)}));
    }
    for o in &before {
        if o.clone_ok == Some(false) {
            return violation(ctx, gi, rule, &input, "a clone does not equal its original (==, hash or Debug)".into(), json!({}));
        }
        if let Some(p) = &o.panicked {
            return violation(ctx, gi, rule, &input, format!("panic: {}", p), json!({}));
        }
    }
    if hist.len() >= 3 {
        ctx.ev.nontrivial(hash_case(gi, rule, &input, fnv(format!("{:?}", hist).as_bytes())));
        ctx.ev.count("class.history_of_three_or_more");
        ctx.ev.sample("history", json!({"grammar": gi.g.id(), "rule": name, "probe_input": show(&input), "history": hist}));
    } else {
        ctx.ev.count("class.short_history");
    }
    CaseResult::Ok
}

pub fn run(world: &World, ctx: &mut Ctx) -> Option<Value> {
    ctx.ev.rule = RULE.to_string();
    let pairs = super::pairs(world, &[]);
    let total = ctx.tier.pick(100_000u64, 1_500_000u64);
    let n = super::per_pair(total, pairs.len(), 20, 20_000);
    ctx.ev.extra.insert("grammar_rule_pairs".into(), json!(pairs.len()));
    ctx.ev.extra.insert("cases_per_pair".into(), json!(n));
    for (gi, rule) in &pairs {
        let k = if gi.g.forms() { n * 3 } else { n / 2 + 1 };
        if let Some(v) = tape_cases(ctx, gi, *rule, k, 64, case_pair) {
            return Some(v);
        }
    }
    let ctx_prop = ctx.prop;
    ctx.prop = "C18";
    for (gi, rule) in &pairs {
        if let Some(v) = tape_cases(ctx, gi, *rule, n / 2 + 1, 96, |c, g, r, t| case_history(c, world, g, r, t)) {
            return Some(v);
        }
    }
    ctx.prop = ctx_prop;
    None
}

pub fn replay(ctx: &mut Ctx, gi: &GInfo, rule: usize, doc: &Value) -> CaseResult {
    let host = doc["input"].as_str().unwrap_or("");
    if doc["detail"]["a"].is_string() {
        let a = super::p03::parse_form(&doc["detail"]["a"]);
        let b = super::p03::parse_form(&doc["detail"]["b"]);
        return check_pair(ctx, gi, rule, host, a, b);
    }
    // a history failure: the probe is deterministic, re-run it twice
    let o1 = gi.g.typed(Req { rule, entry: Entry::ParseFull, form: Form::Str, deep: true }, host);
    let o2 = gi.g.typed(Req { rule, entry: Entry::ParseFull, form: Form::Str, deep: true }, host);
    if o1 != o2 || o1.clone_ok == Some(false) {
        return violation(ctx, gi, rule, host, "repeated parse differs / clone differs".into(), json!({}));
    }
    CaseResult::Ok
}
