//! Property drivers over the compiled corpus.

use crate::drive::{Ctx, GInfo, World};
use serde_json::Value;

pub mod p01;

/// (grammar index, rule index) pairs a property runs on.
pub fn pairs<'w>(world: &'w World, families: &[&str]) -> Vec<(&'w GInfo, usize)> {
    let mut v = vec![];
    for gi in &world.grammars {
        if families.is_empty() || families.contains(&gi.g.family()) {
            for r in 0..gi.rules.len() {
                v.push((gi, r));
            }
        }
    }
    v
}

/// Cases per (grammar, rule) so that the whole run does about `total` cases.
pub fn per_pair(total: u64, pairs: usize, min: u32, max: u32) -> u32 {
    if pairs == 0 {
        return min;
    }
    ((total / pairs as u64) as u32).clamp(min, max)
}

pub fn run_property(world: &World, ctx: &mut Ctx) -> Option<Value> {
    match ctx.prop {
        "C01" => p01::run(world, ctx),
        _ => None,
    }
}

pub fn replay(world: &World, doc: &Value, path: &str) -> i32 {
    let prop = doc["property"].as_str().unwrap_or("");
    let id = doc["grammar"]["id"].as_str().unwrap_or("");
    let gi = match world.grammars.iter().find(|g| g.g.id() == id && g.g.text() == doc["grammar"]["text"].as_str().unwrap_or("")) {
        Some(g) => g,
        None => {
            eprintln!("replay: grammar {} is not in the compiled corpus", id);
            return 2;
        }
    };
    let rule = match gi.rules.iter().position(|r| r.0 == doc["rule"].as_str().unwrap_or("")) {
        Some(r) => r,
        None => return 2,
    };
    let mut ctx = crate::drive::replay_ctx(prop);
    let res = match prop {
        "C01" => p01::replay(&mut ctx, gi, rule, doc),
        _ => {
            eprintln!("replay: no driver for {}", prop);
            return 2;
        }
    };
    match res {
        crate::drive::CaseResult::Violation(v) => {
            println!("still failing: {}", v["why"]);
            println!("VIOLATION property={} replay={}", prop, path);
            1
        }
        crate::drive::CaseResult::Known(id) => {
            println!("KNOWN-FINDING: property={} {} (replayed case)", prop, id);
            0
        }
        crate::drive::CaseResult::Ok => {
            println!("replay passes");
            0
        }
    }
}
