//! Property drivers over the compiled corpus.

use crate::drive::{Ctx, GInfo, World};
use serde_json::Value;

pub mod p01;
pub mod p02;
pub mod p03;
pub mod p04;
pub mod p05;
pub mod p06;
pub mod p07;
pub mod p08;
pub mod p09;
pub mod p10;
pub mod p11;
pub mod p15;
pub mod p16;
pub mod p17;
pub mod p18;
pub mod p20;

/// (grammar index, rule index) pairs a property runs on.
pub fn pairs<'w>(world: &'w World, families: &[&str]) -> Vec<(&'w GInfo, usize)> {
    let mut v = vec![];
    for gi in &world.grammars {
        // the non-default option variants are compared with their default build by C20 only
        if gi.g.family() == "options" && !gi.g.options().is_empty() {
            continue;
        }
        if families.is_empty() || families.contains(&gi.g.family()) {
            for r in 0..gi.rules.len() {
                v.push((gi, r));
            }
        }
    }
    v
}

/// Cases per (grammar, rule) so that the whole run does about `total` cases.
pub fn per_pair(total: u64, pairs: usize, min: u32, max: u32) -> u32 {
    if pairs == 0 {
        return min;
    }
    ((total / pairs as u64) as u32).clamp(min, max)
}

pub fn run_property(world: &World, ctx: &mut Ctx) -> Option<Value> {
    if let Some(v) = run_saved_replays(world, ctx) {
        return Some(v);
    }
    match ctx.prop {
        "C01" => p01::run(world, ctx),
        "C02" => p02::run(world, ctx),
        "C03" => p03::run(world, ctx),
        "C04" => p04::run(world, ctx),
        "C05" => p05::run(world, ctx),
        "C06" => p06::run(world, ctx),
        "C07" => p07::run(world, ctx),
        "C08" => p08::run(world, ctx),
        "C10" => p10::run(world, ctx),
        "C11" => p11::run(world, ctx),
        "C09" => p09::run(world, ctx, ctx.dump.clone().as_deref()),
        "C15" => p15::run(world, ctx),
        "C16" => p16::run(world, ctx),
        "C17" => p17::run(world, ctx),
        "C18" => p18::run(world, ctx),
        "C20" => p20::run(world, ctx),
        _ => None,
    }
}

/// Grammars whose derive output did not compile (written by the driver).  A failure that is
/// not explained by one of the `allowed` open findings is a violation of C11 / C20.
pub fn compile_failures(ctx: &mut Ctx, allowed: &[&'static str]) -> Option<Value> {
    let path = crate::common::work_dir().join("compile_failures.json");
    let v: Value = std::fs::read_to_string(&path).ok().and_then(|t| serde_json::from_str(&t).ok()).unwrap_or(Value::Array(vec![]));
    let corpus: Value = std::fs::read_to_string(crate::common::work_dir().join("corpus.json")).ok().and_then(|t| serde_json::from_str(&t).ok()).unwrap_or(Value::Null);
    for f in v.as_array().cloned().unwrap_or_default() {
        ctx.ev.eval();
        let id = f["grammar"].as_str().unwrap_or("").to_string();
        let spec = corpus["specs"].as_array().and_then(|a| a.iter().find(|s| s["id"] == id).cloned()).unwrap_or(Value::Null);
        let text = spec["text"].as_str().unwrap_or("");
        let opts: Vec<String> = spec["options"].as_array().map(|a| a.iter().filter_map(|x| x.as_str().map(String::from)).collect()).unwrap_or_default();
        // K5: pest_optimizer = false together with a counted repetition
        let counted = crate::ir::Grammar::parse(text).map(|g| g.raw.iter().any(|r| r.expr.any(&|e| matches!(e, crate::ir::Expr::RepExact(..) | crate::ir::Expr::RepMin(..) | crate::ir::Expr::RepMax(..) | crate::ir::Expr::RepMinMax(..))))).unwrap_or(false);
        // K7: the Unicode property INHERITED collides with the const parameter of the rule structs
        let mentions_inherited = crate::ir::Grammar::parse(text).map(|g| !g.has("INHERITED") && g.raw.iter().any(|r| r.expr.any(&|e| matches!(e, crate::ir::Expr::Ident(n) if n == "INHERITED")))).unwrap_or(false);
        if allowed.contains(&"K7") && ctx.open("K7") && mentions_inherited {
            ctx.ev.known_finding("K7");
            if id.starts_with("kf_K7") {
                crate::common::print_known(ctx.prop, "K7", "a grammar that mentions the Unicode property rule INHERITED emits code that does not compile (E0747)");
            }
            continue;
        }
        if !allowed.contains(&"K7") && mentions_inherited {
            continue; // C11's business
        }
        if allowed.contains(&"K5") && ctx.open("K5") && counted && opts.iter().any(|o| o.replace(' ', "") == "pest_optimizer=false") {
            ctx.ev.known_finding("K5");
            if id.starts_with("kf_K5") {
                crate::common::print_known(ctx.prop, "K5", "#[pest_optimizer = false] with a counted repetition ({n}, {n,}, {,m}, {n,m}) emits code that does not compile");
            }
            continue;
        }
        return Some(serde_json::json!({"property": ctx.prop, "kind": "compile", "grammar": spec, "rule": "", "input": "", "why": format!("pest accepts the grammar but the code the derive emits for it does not compile: {}", f["diagnostic"].as_str().unwrap_or(""))}));
    }
    None
}

/// Re-execute one saved case through its property's check.
pub fn replay_case(ctx: &mut Ctx, gi: &GInfo, rule: usize, doc: &Value) -> Option<crate::drive::CaseResult> {
    let input = doc["input"].as_str().unwrap_or("");
    Some(match ctx.prop {
        "C01" => p01::check_input(ctx, gi, rule, input),
        "C02" => p02::check_input(ctx, gi, rule, input),
        "C03" => p03::replay(ctx, gi, rule, doc),
        "C04" => p04::check_input(ctx, gi, rule, input),
        "C05" => p05::check_input(ctx, gi, rule, input),
        "C06" => p06::replay(ctx, gi, rule, doc),
        "C07" => p07::check_input(ctx, gi, rule, input),
        "C08" => p08::replay(ctx, gi, rule, doc),
        "C09" => p09::replay(ctx, gi, rule, doc),
        "C10" => p10::replay(ctx, gi, rule, doc),
        "C11" => p11::replay(ctx, gi, rule, doc),
        "C15" => p15::check_input(ctx, gi, rule, input),
        "C16" => p16::check_input(ctx, gi, rule, input),
        "C17" => p17::replay(ctx, gi, doc),
        "C18" => p18::replay(ctx, gi, rule, doc),
        _ => return None,
    })
}

pub fn find_case<'w>(world: &'w World, doc: &Value) -> Option<(&'w GInfo, usize)> {
    let text = doc["grammar"]["text"].as_str().unwrap_or("");
    let opts = doc["grammar"]["options"].as_str().unwrap_or("");
    let gi = world.grammars.iter().find(|g| g.g.text() == text && g.g.options() == opts)?;
    let rule = gi.rules.iter().position(|r| r.0 == doc["rule"].as_str().unwrap_or(""))?;
    Some((gi, rule))
}

/// The regression tier: every file under /verif/replays/<property>/ is executed first.
pub fn run_saved_replays(world: &World, ctx: &mut Ctx) -> Option<Value> {
    let dir = crate::common::verif_root().join("replays").join(ctx.prop);
    let mut files: Vec<_> = std::fs::read_dir(&dir).ok()?.flatten().map(|e| e.path()).filter(|p| p.extension().map(|x| x == "json").unwrap_or(false)).collect();
    files.sort();
    for f in files {
        let doc: Value = match std::fs::read_to_string(&f).ok().and_then(|t| serde_json::from_str(&t).ok()) {
            Some(d) => d,
            None => continue,
        };
        if let Some((gi, rule)) = find_case(world, &doc) {
            ctx.ev.count("saved_replays_executed");
            if let Some(crate::drive::CaseResult::Violation(v)) = replay_case(ctx, gi, rule, &doc) {
                return Some(v);
            }
        } else {
            ctx.ev.count("saved_replays_not_in_corpus");
        }
    }
    None
}

pub fn replay(world: &World, doc: &Value, path: &str) -> i32 {
    let prop = doc["property"].as_str().unwrap_or("");
    let (gi, rule) = match find_case(world, doc) {
        Some(x) => x,
        None => {
            eprintln!("replay: the grammar of the replay file is not in the compiled corpus");
            return 2;
        }
    };
    let mut ctx = crate::drive::replay_ctx(prop);
    let res = match replay_case(&mut ctx, gi, rule, doc) {
        Some(r) => r,
        None => {
            eprintln!("replay: no driver for {}", prop);
            return 2;
        }
    };
    match res {
        crate::drive::CaseResult::Violation(v) => {
            println!("still failing: {}", v["why"]);
            println!("VIOLATION property={} replay={}", prop, path);
            1
        }
        crate::drive::CaseResult::Known(id) => {
            println!("KNOWN-FINDING: property={} {} (replayed case)", prop, id);
            0
        }
        crate::drive::CaseResult::Ok => {
            println!("replay passes");
            0
        }
    }
}
