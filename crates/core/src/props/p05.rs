//! C05 — a failed alternative, optional, iteration or lookahead leaves no trace.

use crate::api::*;
use crate::common::show;
use crate::drive::*;
use crate::interp::{self, Cfg, StackKind};
use serde_json::{json, Value};

pub const RULE: &str = "cases: every rule of the stack-using grammars of the corpus (generated stack family with PUSH/POP/DROP/POP_ALL/PEEK* inside choices, optionals, repetitions, predicates and behind rule references, nested <=3; slice and regression families) x inputs from the stack-aware sentence generator with near-miss mutations, so that scopes fail after the stack was modified. Oracle: the reference interpreter with an immutable stack (full backtracking, predicates always restore). Observed through try_parse_partial_with / try_check_partial_with with the harness' own pest::Stack: verdict, cursor and - on success - the final stack contents. Non-trivial = the reference trace holds a scope that failed after a stack modification, or a predicate whose operand modified the stack; distinct by (grammar, rule, input).";

pub fn check_input(ctx: &mut Ctx, gi: &GInfo, rule: usize, input: &str) -> CaseResult {
    ctx.ev.eval();
    let name = gi.rules[rule].0.clone();
    if let Ok(mut c) = ctx.current.lock() {
        *c = json!({"grammar": gi.describe(), "rule": name, "input": input}).to_string();
    }
    let full = interp::run(gi.ir, &Cfg::default(), &name, input, 0, input.len());
    if !full.defined() {
        ctx.ev.count("excluded.not_well_founded_or_budget");
        return CaseResult::Ok;
    }
    let want = full.verdict().unwrap();
    let want_stack: Vec<(usize, usize)> = full.stack.clone();
    for entry in [Entry::ParsePartialWith, Entry::CheckPartialWith] {
        let t = gi.g.typed(Req { rule, entry, form: Form::Str, deep: false }, input);
        let got = if t.ok { t.end } else { None };
        let stack_ok = want.is_none() || t.stack.as_ref() == Some(&want_stack);
        if t.panicked.is_none() && got == want && stack_ok {
            continue;
        }
        // K2: pest::Stack::clear_snapshot defect, shared with pest
        if ctx.open("K2") {
            let ts = interp::run(gi.ir, &Cfg { stack: StackKind::TypedSim, optimised: true, ..Cfg::default() }, &name, input, 0, input.len());
            let same = ts.defined() && ts.verdict() == Some(got) && (got.is_none() || t.stack.as_ref() == Some(&ts.stack));
            if same && ts.events.pest_leak && t.panicked.is_none() {
                ctx.ev.count("excluded.K2");
                return CaseResult::Known("K2");
            }
        }
        if ctx.open("K1") && (gi.ir.has_ws() || gi.ir.has_comment()) {
            let k1 = interp::run(gi.ir, &Cfg { k1: true, ..Cfg::default() }, &name, input, 0, input.len());
            if k1.defined() && k1.verdict() == Some(got) && k1.verdict() != Some(want) {
                ctx.ev.count("excluded.K1");
                return CaseResult::Known("K1");
            }
        }
        let why = if let Some(p) = &t.panicked {
            format!("{:?} panicked: {}", entry, p)
        } else if got != want {
            format!("{:?}: typed {:?}, full backtracking gives {:?}", entry, got, want)
        } else {
            format!("{:?}: final stack {:?}, full backtracking leaves {:?}", entry, t.stack, want_stack)
        };
        return violation(ctx, gi, rule, input, why, json!({"entry": format!("{:?}", entry)}));
    }
    let ev = &full.events;
    if !ev.dirty_failures.is_empty() || ev.dirty_predicates > 0 {
        ctx.ev.nontrivial(hash_case(gi, rule, input, 5));
        let depth = ev.dirty_failures.iter().copied().max().unwrap_or(0);
        let class = if ev.dirty_predicates > 0 { "predicate_operand_modified_stack" } else if depth >= 6 { "dirty_failure_deeply_nested" } else if depth >= 3 { "dirty_failure_nested" } else { "dirty_failure" };
        ctx.ev.count(&format!("class.{}", class));
        ctx.ev.sample(class, json!({"grammar": gi.g.id(), "rule": name, "input": show(input), "verdict": format!("{:?}", want), "final_stack": want_stack.iter().map(|&(a, b)| &input[a..b]).collect::<Vec<_>>(), "text": gi.g.text()}));
    } else if ev.stack_ops > 0 {
        ctx.ev.count("class.stack_ops_without_dirty_failure");
    } else {
        ctx.ev.count("class.no_stack_op_reached");
    }
    CaseResult::Ok
}

pub fn case(ctx: &mut Ctx, gi: &GInfo, rule: usize, tape: &[u8]) -> CaseResult {
    let (input, _) = input_from(gi, rule, tape);
    check_input(ctx, gi, rule, &input)
}

pub fn run(world: &World, ctx: &mut Ctx) -> Option<Value> {
    ctx.ev.rule = RULE.to_string();
    if let Some(v) = run_reproducers(world, ctx, check_input) {
        return Some(v);
    }
    let pairs: Vec<_> = super::pairs(world, &[]).into_iter().filter(|(g, r)| g.uses_stack && g.ir.rule_reaches_stack(&g.rules[*r].0)).collect();
    let total = ctx.tier.pick(300_000u64, 4_000_000u64);
    let n = super::per_pair(total, pairs.len(), 50, 40_000);
    ctx.ev.extra.insert("grammar_rule_pairs".into(), json!(pairs.len()));
    ctx.ev.extra.insert("cases_per_pair".into(), json!(n));
    for (gi, rule) in pairs {
        if gi.g.family() == "slice" && gi.g.id() == "slice" {
            // the slice grammar never fails a scope dirty: a token share of the budget
            if let Some(v) = tape_cases(ctx, gi, rule, 20, 48, case) {
                return Some(v);
            }
            continue;
        }
        if let Some(v) = tape_cases(ctx, gi, rule, n, 48, case) {
            return Some(v);
        }
    }
    None
}
