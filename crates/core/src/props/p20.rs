//! C20 — generation options change representation only, and generation is deterministic.

use crate::api::*;
use crate::common::show;
use crate::drive::*;
use serde_json::{json, Value};

pub const RULE: &str = "cases: options family - generated mutually recursive grammars and a hand-written one with cycles through options, repetitions, choices and skip rules - each compiled under the option sets {default, box_only_if_needed, emit_rule_reference, emit_tagged_node_reference, do_not_emit_span, no_warnings, pest_optimizer = false, all together} as separate modules. (i) determinism: the generator library is run on every corpus grammar under its option set in two separate processes (fresh hash seeds) and twice more in-process; all token streams must be identical; (ii) every variant must compile (a variant whose derive output does not compile is a violation unless it is a listed finding); (iii) for every rule and grammar-derived input: verdict, cursor and thin token forest of each variant must equal those of the default variant (which C01/C02 tie to pest on the same corpus). Non-trivial = a non-default variant on an input whose reference derivation re-enters a rule (recursion depth >=2) and consumes input; distinct by (grammar, variant, rule, input).";

pub struct Family<'w> {
    pub base: &'w GInfo,
    pub variants: Vec<&'w GInfo>,
}

pub fn families(world: &World) -> Vec<Family<'_>> {
    let mut out: Vec<Family<'_>> = vec![];
    for gi in world.grammars.iter().filter(|g| g.g.family() == "options") {
        if gi.g.options().is_empty() {
            out.push(Family { base: gi, variants: vec![] });
        }
    }
    for gi in world.grammars.iter().filter(|g| g.g.family() == "options" && !g.g.options().is_empty()) {
        if let Some(f) = out.iter_mut().find(|f| f.base.g.text() == gi.g.text()) {
            f.variants.push(gi);
        }
    }
    out
}

pub fn check_input(ctx: &mut Ctx, fam: &Family<'_>, rule: usize, input: &str) -> CaseResult {
    let gi = fam.base;
    let name = gi.rules[rule].0.clone();
    let r = crate::interp::run(gi.ir, &crate::interp::Cfg::default(), &name, input, 0, input.len());
    if !r.defined() {
        ctx.ev.count("excluded.not_well_founded_or_budget");
        return CaseResult::Ok;
    }
    let req = Req { rule, entry: Entry::ParsePartial, form: Form::Str, deep: false };
    let base = gi.g.typed(req, input);
    for v in &fam.variants {
        ctx.ev.eval();
        let vr = match v.rules.iter().position(|x| x.0 == name) {
            Some(i) => i,
            None => continue,
        };
        let o = v.g.typed(Req { rule: vr, ..req }, input);
        let same = o.panicked.is_some() == base.panicked.is_some() && o.ok == base.ok && o.end == base.end && o.tokens == base.tokens;
        if !same {
            if ctx.open("K6") && v.g.options().contains("pest_optimizer = false") && o.panicked.is_none() {
                // defect model: the raw AST with the runtime's own at-least-once repetition
                // (alone, or combined with K1 when that finding is open too)
                let mut explained = false;
                for k1 in [false, true] {
                    if k1 && !ctx.open("K1") {
                        continue;
                    }
                    let m = crate::interp::run(gi.ir, &crate::interp::Cfg { native_plus: true, k1, ..crate::interp::Cfg::default() }, &name, input, 0, input.len());
                    let emission = if k1 { crate::interp::Emission::Typed } else { crate::interp::Emission::Spec };
                    explained |= match m.matched() {
                        Some((e, d)) => o.ok && o.end == Some(e) && o.tokens.as_ref() == Some(&crate::interp::token_forest(gi.ir, d, emission)),
                        None => m.defined() && !o.ok,
                    };
                }
                if explained {
                    ctx.ev.count("excluded.K6");
                    return CaseResult::Known("K6");
                }
            }
            return violation(ctx, v, vr, input, format!("variant [{}] gives ok={} end={:?} tokens={:?}; the default variant gives ok={} end={:?} tokens={:?}", v.g.options(), o.ok, o.end, o.tokens.as_ref().map(|t| crate::interp::render_toks(t)), base.ok, base.end, base.tokens.as_ref().map(|t| crate::interp::render_toks(t))), json!({"variant": v.g.options(), "panicked": o.panicked}));
        }
        if r.events.max_rule_depth >= 2 && r.events.furthest > 0 {
            ctx.ev.nontrivial(hash_case(v, vr, input, 20));
            ctx.ev.count(&format!("variant.{}", v.g.id().rsplit('_').next().unwrap_or("?")));
            ctx.ev.sample(v.g.id().rsplit('_').next().unwrap_or("?"), json!({"grammar": v.g.id(), "options": v.g.options(), "rule": name, "input": show(input), "verdict": format!("{:?}", base.end), "recursion_depth": r.events.max_rule_depth}));
        }
    }
    CaseResult::Ok
}

pub fn run(world: &World, ctx: &mut Ctx) -> Option<Value> {
    ctx.ev.rule = RULE.to_string();
    // (i) determinism: digests written by separate verif_gen processes
    let dir = crate::common::work_dir();
    let mut digests: Vec<Value> = vec![];
    for f in ["tokens_a.json", "tokens_b.json", "tokens_c.json"] {
        if let Some(v) = std::fs::read_to_string(dir.join(f)).ok().and_then(|t| serde_json::from_str::<Value>(&t).ok()) {
            digests.push(v);
        }
    }
    ctx.ev.extra.insert("generator_processes_compared".into(), json!(digests.len()));
    if digests.len() >= 2 {
        let first = digests[0].as_object().cloned().unwrap_or_default();
        for (id, d) in &first {
            ctx.ev.eval();
            for other in &digests[1..] {
                if other[id] != *d {
                    return Some(json!({"property": "C20", "why": format!("the derive emits different token streams for grammar {} in separate processes: {} vs {}", id, d, other[id]), "grammar": {"id": id}, "kind": "determinism"}));
                }
            }
            ctx.ev.count("determinism.grammars_compared");
            if d.get("panic").is_some() {
                ctx.ev.count("determinism.generator_panics_consistently");
            }
        }
    } else {
        eprintln!("runner: C20 determinism files are missing (run through ./check): inconclusive");
        std::process::exit(2);
    }
    // (ii) compile failures of corpus grammars
    if let Some(v) = super::compile_failures(ctx, &["K5"]) {
        return Some(v);
    }
    // (iii) behavioural equality of the variants
    let fams = families(world);
    ctx.ev.extra.insert("base_grammars".into(), json!(fams.len()));
    ctx.ev.extra.insert("variants".into(), json!(fams.iter().map(|f| f.variants.len()).sum::<usize>()));
    // stored reproducers of the listed findings
    for f in ctx.findings.clone().iter().filter(|f| f.open() && f.properties.iter().any(|p| p == "C20")) {
        for (k, rep) in f.raw["reproducers"].as_array().cloned().unwrap_or_default().iter().enumerate() {
            let id = format!("kf_{}_{}_default", f.id, k);
            if let Some(fam) = fams.iter().find(|x| x.base.g.id() == id) {
                if let Some(rule) = fam.base.rules.iter().position(|r| Some(r.0.as_str()) == rep["rule"].as_str()) {
                    match check_input(ctx, fam, rule, rep["input"].as_str().unwrap_or("")) {
                        CaseResult::Known(kid) if kid == f.id => {
                            ctx.ev.known_finding(kid);
                            crate::common::print_known("C20", kid, rep["what"].as_str().unwrap_or(""));
                        }
                        CaseResult::Violation(v) => return Some(v),
                        _ => {}
                    }
                }
            }
        }
    }
    let pairs: usize = fams.iter().map(|f| f.base.rules.len()).sum();
    let total = ctx.tier.pick(60_000u64, 800_000u64);
    let n = super::per_pair(total, pairs, 50, 20_000);
    for fam in &fams {
        for rule in 0..fam.base.rules.len() {
            if let Some(v) = tape_cases(ctx, fam.base, rule, n, 56, |c, g, r, t| {
                let (input, _) = input_from(g, r, t);
                check_input(c, fam, r, &input)
            }) {
                return Some(v);
            }
        }
    }
    None
}

pub fn replay(world: &World, ctx: &mut Ctx, gi: &GInfo, rule: usize, doc: &Value) -> CaseResult {
    let fams = families(world);
    let name = &gi.rules[rule].0;
    for fam in &fams {
        if fam.base.g.text() == gi.g.text() {
            if let Some(r) = fam.base.rules.iter().position(|x| x.0 == *name) {
                return check_input(ctx, fam, r, doc["input"].as_str().unwrap_or(""));
            }
        }
    }
    CaseResult::Ok
}
