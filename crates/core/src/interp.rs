//! R — the reference PEG interpreter.
//!
//! A direct, unoptimised evaluator of pest grammars, written from pest's documentation and
//! from what `pest_generator` emits for each expression (see DESIGN.md section 3).  It
//! produces a derivation tree from which every observable the properties talk about is a
//! projection: consumed offset, pest-style token tree, final stack, rule attempts.
//!
//! The stack discipline is pluggable (`StackKind`):
//!  * `Full`    – the specification: a failed scope leaves the stack untouched, predicates
//!                always restore, empty-stack PEEK/POP/DROP fail.
//!  * `PestSim` – what pest 2.7.14 does: snapshots only at RestoreOnErr nodes of the optimised
//!                AST and at lookahead; PEEK/POP on an empty stack panic; POP_ALL pops while
//!                matching.  Flags *leaks* (a scope failed and nothing restored the stack).
//!  * `TypedSim`– pest-typed's documented placement of snapshots on a real `pest::Stack`.

use crate::ir::{Expr, Grammar, Kind, Rule};
use std::collections::BTreeSet;

#[derive(Clone, Copy, Debug, PartialEq, Eq)]
pub enum Atom {
    NonAtomic,
    Atomic,
    Compound,
}

#[derive(Clone, Copy, Debug, PartialEq, Eq)]
pub enum StackKind {
    Full,
    PestSim,
    TypedSim,
}

#[derive(Clone, Debug)]
pub struct Cfg {
    pub stack: StackKind,
    /// evaluate the optimised AST (the one both code generators see) instead of the raw one
    pub optimised: bool,
    /// defect model K1: WHITESPACE / COMMENT are not forced atomic; their own rule kind decides
    pub k1: bool,
    pub trace: bool,
    pub step_limit: u64,
    /// defect model K6: `e+` is matched by the runtime's own at-least-once repetition (a skip
    /// before a failing iteration is given back) instead of pest's unrolling `e ~ e*`; this is
    /// what pest-typed generates with `pest_optimizer = false`
    pub native_plus: bool,
}
impl Default for Cfg {
    fn default() -> Self {
        Cfg { stack: StackKind::Full, optimised: false, k1: false, trace: false, step_limit: 400_000, native_plus: false }
    }
}

#[derive(Clone, Debug, PartialEq, Eq)]
pub enum NK {
    Str,
    Insens,
    Range,
    Builtin(String),
    Rule { idx: usize, kind: Kind, emit_pest: bool, look: bool },
    /// the built-in EOI, which behaves like a normal rule for tokens and tracking
    Eoi { emit_pest: bool, look: bool },
    Seq,
    Choice(usize),
    Opt,
    Rep,
    Pos,
    Neg,
    Push,
    PeekSlice,
    SkipUntil,
    /// implicit skip between sequence elements / repetition iterations
    Skip,
}

#[derive(Clone, Debug, PartialEq, Eq)]
pub struct Node {
    pub kind: NK,
    pub start: usize,
    pub end: usize,
    pub kids: Vec<Node>,
}
impl Node {
    fn leaf(kind: NK, start: usize, end: usize) -> Node {
        Node { kind, start, end, kids: vec![] }
    }
}

#[derive(Clone, Debug, PartialEq, Eq, PartialOrd, Ord)]
pub struct Attempt {
    /// rule name (EOI included)
    pub rule: String,
    pub pos: usize,
    pub ok: bool,
    /// number of enclosing negative predicates is odd
    pub negated: bool,
}

#[derive(Clone, Debug, Default)]
pub struct Events {
    /// a scope failed after the stack had been modified inside it (depth of nesting recorded)
    pub dirty_failures: Vec<usize>,
    /// a predicate's operand matched and had modified the stack
    pub dirty_predicates: u64,
    pub empty_stack_ops: Vec<usize>,
    pub slice_out_of_range: Vec<usize>,
    pub stack_ops: u64,
    pub implicit_skips_nonempty: u64,
    pub choice_backtracks: u64,
    pub rep_iterations_max: usize,
    pub furthest: usize,
    pub pest_panic: bool,
    pub pest_leak: bool,
    pub max_rule_depth: usize,
    pub rule_attempts: u64,
    pub predicates: u64,
}

#[derive(Clone, Debug)]
pub enum Outcome {
    /// the expression matched: end offset, derivation
    Match(usize, Node),
    Fail,
    /// left recursion or a repetition that repeats without progress: (grammar, rule, input)
    /// is outside the domain of the properties
    NotWellFounded(String),
    /// the evaluation exceeded its step budget
    Budget,
}

#[derive(Clone, Debug)]
pub struct Run {
    pub outcome: Outcome,
    /// final stack as (start, end) spans, bottom first
    pub stack: Vec<(usize, usize)>,
    pub events: Events,
    pub attempts: Vec<Attempt>,
    pub steps: u64,
}
impl Run {
    pub fn matched(&self) -> Option<(usize, &Node)> {
        match &self.outcome {
            Outcome::Match(e, n) => Some((*e, n)),
            _ => None,
        }
    }
    pub fn verdict(&self) -> Option<Option<usize>> {
        match &self.outcome {
            Outcome::Match(e, _) => Some(Some(*e)),
            Outcome::Fail => Some(None),
            _ => None,
        }
    }
    pub fn defined(&self) -> bool {
        matches!(self.outcome, Outcome::Match(..) | Outcome::Fail)
    }
}

enum Abort {
    NotWellFounded(String),
    Budget,
}
type R<T> = Result<T, Abort>;

// -----------------------------------------------------------------------------------------
// stack models

#[derive(Clone, Copy, Debug, PartialEq, Eq)]
enum Scope {
    Seq,
    Alt,
    Opt,
    RepIter,
    SkipIter,
    Pred,
    RestoreOnErr,
    Push,
}

type Sp = (usize, usize);

struct StackM {
    kind: StackKind,
    // Full
    full: Vec<Sp>,
    saves: Vec<Vec<Sp>>,
    // PestSim / TypedSim
    real: pest::Stack<Sp>,
    // leak detection for PestSim: content at scope entry
    entry_saves: Vec<Vec<Sp>>,
}

impl StackM {
    fn new(kind: StackKind) -> Self {
        StackM { kind, full: vec![], saves: vec![], real: pest::Stack::new(), entry_saves: vec![] }
    }
    fn content(&self) -> Vec<Sp> {
        match self.kind {
            StackKind::Full => self.full.clone(),
            _ => self.real[0..self.real.len()].to_vec(),
        }
    }
    fn len(&self) -> usize {
        match self.kind {
            StackKind::Full => self.full.len(),
            _ => self.real.len(),
        }
    }
    fn push(&mut self, s: Sp) {
        match self.kind {
            StackKind::Full => self.full.push(s),
            _ => self.real.push(s),
        }
    }
    fn pop(&mut self) -> Option<Sp> {
        match self.kind {
            StackKind::Full => self.full.pop(),
            _ => self.real.pop(),
        }
    }
    fn peek(&self) -> Option<Sp> {
        match self.kind {
            StackKind::Full => self.full.last().copied(),
            _ => self.real.peek().copied(),
        }
    }
    fn snapshots(&self, scope: Scope) -> bool {
        match self.kind {
            StackKind::Full => true,
            StackKind::PestSim => matches!(scope, Scope::Pred | Scope::RestoreOnErr),
            StackKind::TypedSim => matches!(scope, Scope::Alt | Scope::Opt | Scope::RepIter | Scope::SkipIter | Scope::Pred),
        }
    }
    fn enter(&mut self, scope: Scope) {
        match self.kind {
            StackKind::Full => self.saves.push(self.full.clone()),
            _ => {
                self.entry_saves.push(self.content());
                if self.snapshots(scope) {
                    self.real.snapshot();
                }
            }
        }
    }
    /// Returns (stack was modified inside the scope, leak).
    fn exit(&mut self, scope: Scope, ok: bool) -> (bool, bool) {
        match self.kind {
            StackKind::Full => {
                let saved = self.saves.pop().unwrap();
                let dirty = saved != self.full;
                if !ok || scope == Scope::Pred {
                    self.full = saved;
                }
                (dirty, false)
            }
            _ => {
                let saved = self.entry_saves.pop().unwrap();
                let dirty = saved != self.content();
                if self.snapshots(scope) {
                    if scope == Scope::Pred || !ok {
                        self.real.restore();
                    } else {
                        self.real.clear_snapshot();
                    }
                }
                // a leak matters where parsing goes on after the failure: at backtracking
                // points (alternative, optional, iteration) and at predicates
                let backtracking = matches!(scope, Scope::Alt | Scope::Opt | Scope::RepIter | Scope::SkipIter | Scope::RestoreOnErr);
                let must_equal = (!ok && backtracking) || scope == Scope::Pred;
                let leak = must_equal && saved != self.content();
                (dirty, leak)
            }
        }
    }
}

// -----------------------------------------------------------------------------------------

pub struct Interp<'g> {
    g: &'g Grammar,
    rules: &'g [Rule],
    cfg: Cfg,
    input: &'g str,
    lo: usize,
    hi: usize,
    st: StackM,
    ev: Events,
    attempts: Vec<Attempt>,
    steps: u64,
    active: BTreeSet<(usize, usize, u64)>,
    depth: usize,
    neg_depth: usize,
    scope_depth: usize,
}

fn hash_stack(input: &str, s: &[Sp]) -> u64 {
    let mut h: u64 = 0xcbf29ce484222325;
    for &(a, b) in s {
        for byte in input[a..b].bytes() {
            h ^= byte as u64;
            h = h.wrapping_mul(0x100000001b3);
        }
        h ^= 0xff;
        h = h.wrapping_mul(0x100000001b3);
    }
    h
}

pub fn normalize_index(i: i32, len: usize) -> Option<usize> {
    // written from pest's documentation: negative indices count from the top; an index
    // beyond the length is out of range (an index equal to the length is the open end)
    let len = len as i64;
    let i = i as i64;
    if i > len {
        None
    } else if i >= 0 {
        Some(i as usize)
    } else if len + i >= 0 {
        Some((len + i) as usize)
    } else {
        None
    }
}

impl<'g> Interp<'g> {
    pub fn new(g: &'g Grammar, cfg: Cfg, input: &'g str, lo: usize, hi: usize) -> Self {
        let rules: &[Rule] = if cfg.optimised { &g.opt } else { &g.raw };
        let kind = cfg.stack;
        Interp { g, rules, cfg, input, lo, hi, st: StackM::new(kind), ev: Events::default(), attempts: vec![], steps: 0, active: BTreeSet::new(), depth: 0, neg_depth: 0, scope_depth: 0 }
    }

    /// Evaluate rule `name` as entry point at `lo` (non-atomic context, as both parsers do).
    pub fn run_rule(mut self, name: &str) -> Run {
        let lo = self.lo;
        let res = self.rule_ref(name, lo, Atom::NonAtomic, false);
        self.finish(res)
    }

    /// Evaluate the implicit skip closure at `pos` (used by C04's trailing-skip oracle).
    pub fn run_skip(mut self, pos: usize) -> Run {
        let res = self.skip(pos).map(|(p, n)| Some((p, n)));
        self.finish(res)
    }

    /// Evaluate a free-standing expression (C19).
    pub fn run_expr(mut self, e: &Expr, atom: Atom) -> Run {
        let lo = self.lo;
        let res = self.eval(e, lo, atom, false);
        self.finish(res)
    }

    fn finish(mut self, res: R<Option<(usize, Node)>>) -> Run {
        let outcome = match res {
            Ok(Some((e, n))) => Outcome::Match(e, n),
            Ok(None) => Outcome::Fail,
            Err(Abort::NotWellFounded(w)) => Outcome::NotWellFounded(w),
            Err(Abort::Budget) => Outcome::Budget,
        };
        self.attempts.sort();
        self.attempts.dedup();
        Run { outcome, stack: self.st.content(), events: self.ev, attempts: self.attempts, steps: self.steps }
    }

    fn tick(&mut self) -> R<()> {
        self.steps += 1;
        if self.steps > self.cfg.step_limit {
            Err(Abort::Budget)
        } else {
            Ok(())
        }
    }

    fn rest(&self, pos: usize) -> &'g str {
        &self.input[pos..self.hi]
    }

    fn touch(&mut self, pos: usize) {
        if pos > self.ev.furthest {
            self.ev.furthest = pos;
        }
    }

    fn match_str(&mut self, s: &str, pos: usize) -> Option<usize> {
        if self.rest(pos).starts_with(s) {
            self.touch(pos + s.len());
            Some(pos + s.len())
        } else {
            None
        }
    }

    fn scope<T>(&mut self, scope: Scope, f: impl FnOnce(&mut Self) -> R<Option<T>>) -> R<Option<T>> {
        self.st.enter(scope);
        self.scope_depth += 1;
        let r = f(self);
        self.scope_depth -= 1;
        let ok = matches!(r, Ok(Some(_)));
        let (dirty, leak) = self.st.exit(scope, ok);
        if dirty && !ok && r.is_ok() {
            self.ev.dirty_failures.push(self.scope_depth);
        }
        if dirty && ok && scope == Scope::Pred {
            self.ev.dirty_predicates += 1;
        }
        if leak {
            self.ev.pest_leak = true;
        }
        r
    }

    /// WHITESPACE* (COMMENT WHITESPACE*)*  — each skipped item is evaluated atomically.
    fn skip(&mut self, mut pos: usize) -> R<(usize, Node)> {
        let start = pos;
        let mut kids = vec![];
        let ws = self.g.has_ws();
        let cm = self.g.has_comment();
        // pest calls the skip rules from the (non-atomic) context in which skipping is active
        // and forces their *bodies* atomic; pest-typed instantiates them with INHERITED = 0
        let caller = if self.cfg.k1 { Atom::Atomic } else { Atom::NonAtomic };
        if !ws && !cm {
            return Ok((pos, Node { kind: NK::Skip, start, end: pos, kids }));
        }
        loop {
            self.tick()?;
            if ws {
                loop {
                    let r = self.scope(Scope::SkipIter, |s| s.rule_ref("WHITESPACE", pos, caller, false))?;
                    match r {
                        Some((p, n)) => {
                            if p == pos {
                                return Err(Abort::NotWellFounded("WHITESPACE matches the empty string".into()));
                            }
                            kids.push(n);
                            pos = p;
                        }
                        None => break,
                    }
                }
            }
            if cm {
                let r = self.scope(Scope::SkipIter, |s| s.rule_ref("COMMENT", pos, caller, false))?;
                if let Some((p, n)) = r {
                    if p == pos {
                        return Err(Abort::NotWellFounded("COMMENT matches the empty string".into()));
                    }
                    kids.push(n);
                    pos = p;
                    continue;
                }
            }
            break;
        }
        if pos > start {
            self.ev.implicit_skips_nonempty += 1;
        }
        Ok((pos, Node { kind: NK::Skip, start, end: pos, kids }))
    }

    fn rule_ref(&mut self, name: &str, pos: usize, atom: Atom, look: bool) -> R<Option<(usize, Node)>> {
        self.tick()?;
        if let Some(&idx) = self.g.index.get(name) {
            return self.user_rule(idx, pos, atom, look);
        }
        self.builtin(name, pos, atom, look)
    }

    fn user_rule(&mut self, idx: usize, pos: usize, atom: Atom, look: bool) -> R<Option<(usize, Node)>> {
        let rule: &'g Rule = &self.rules[idx];
        let is_skip_rule = rule.name == "WHITESPACE" || rule.name == "COMMENT";
        // dynamic atomicity of the body, and pest's token emission rule
        let (mut body_atom, emit) = match rule.kind {
            Kind::Normal => (atom, atom != Atom::Atomic),
            Kind::Silent => (atom, false),
            Kind::Atomic => (Atom::Atomic, atom != Atom::Atomic),
            Kind::Compound => (Atom::Compound, true),
            Kind::NonAtomic => (Atom::NonAtomic, true),
        };
        if is_skip_rule && !self.cfg.k1 {
            body_atom = Atom::Atomic;
        }
        let key = (idx, pos, hash_stack(self.input, &self.st.content()));
        if !self.active.insert(key) {
            return Err(Abort::NotWellFounded(format!("rule {} re-entered at {} with the same stack (left recursion)", rule.name, pos)));
        }
        self.depth += 1;
        if self.depth > self.ev.max_rule_depth {
            self.ev.max_rule_depth = self.depth;
        }
        if self.depth > 200 {
            self.depth -= 1;
            self.active.remove(&key);
            return Err(Abort::Budget);
        }
        self.ev.rule_attempts += 1;
        let r = self.eval(&rule.expr, pos, body_atom, look);
        self.depth -= 1;
        self.active.remove(&key);
        let r = r?;
        if self.cfg.trace && rule.kind != Kind::Silent {
            self.attempts.push(Attempt { rule: rule.name.clone(), pos, ok: r.is_some(), negated: self.neg_depth % 2 == 1 });
        }
        Ok(r.map(|(end, body)| (end, Node { kind: NK::Rule { idx, kind: rule.kind, emit_pest: emit && !look, look }, start: pos, end, kids: vec![body] })))
    }

    fn builtin(&mut self, name: &str, pos: usize, atom: Atom, look: bool) -> R<Option<(usize, Node)>> {
        let b = |end: usize| Some((end, Node::leaf(NK::Builtin(name.to_string()), pos, end)));
        let first = self.rest(pos).chars().next();
        let by = |s: &mut Self, f: &dyn Fn(char) -> bool| match first {
            Some(c) if f(c) => {
                s.touch(pos + c.len_utf8());
                b(pos + c.len_utf8())
            }
            _ => None,
        };
        Ok(match name {
            "ANY" => by(self, &|_| true),
            "SOI" => if pos == self.lo { b(pos) } else { None },
            "EOI" => {
                let ok = pos == self.hi;
                if self.cfg.trace {
                    self.attempts.push(Attempt { rule: "EOI".into(), pos, ok, negated: self.neg_depth % 2 == 1 });
                }
                if ok {
                    Some((pos, Node::leaf(NK::Eoi { emit_pest: atom != Atom::Atomic && !look, look }, pos, pos)))
                } else {
                    None
                }
            }
            "NEWLINE" => {
                let mut r = None;
                for s in ["\r\n", "\n", "\r"] {
                    if let Some(e) = self.match_str(s, pos) {
                        r = b(e);
                        break;
                    }
                }
                r
            }
            "ASCII_DIGIT" => by(self, &|c| c.is_ascii_digit()),
            "ASCII_NONZERO_DIGIT" => by(self, &|c| ('1'..='9').contains(&c)),
            "ASCII_BIN_DIGIT" => by(self, &|c| c == '0' || c == '1'),
            "ASCII_OCT_DIGIT" => by(self, &|c| ('0'..='7').contains(&c)),
            "ASCII_HEX_DIGIT" => by(self, &|c| c.is_ascii_hexdigit()),
            "ASCII_ALPHA_LOWER" => by(self, &|c| c.is_ascii_lowercase()),
            "ASCII_ALPHA_UPPER" => by(self, &|c| c.is_ascii_uppercase()),
            "ASCII_ALPHA" => by(self, &|c| c.is_ascii_alphabetic()),
            "ASCII_ALPHANUMERIC" => by(self, &|c| c.is_ascii_alphanumeric()),
            "ASCII" => by(self, &|c| c.is_ascii()),
            "PEEK" => {
                self.ev.stack_ops += 1;
                match self.st.peek() {
                    None => {
                        self.empty_stack(pos, true);
                        None
                    }
                    Some((a, z)) => {
                        let s = &self.input[a..z];
                        self.match_str(s, pos).and_then(b)
                    }
                }
            }
            "POP" => {
                self.ev.stack_ops += 1;
                match self.st.peek() {
                    None => {
                        self.empty_stack(pos, true);
                        None
                    }
                    Some((a, z)) => {
                        let s = &self.input[a..z];
                        let m = self.match_str(s, pos);
                        match self.cfg.stack {
                            // specification: a failed POP leaves no trace
                            StackKind::Full => {
                                if m.is_some() {
                                    self.st.pop();
                                }
                            }
                            // both implementations pop first and match afterwards
                            _ => {
                                self.st.pop();
                            }
                        }
                        m.and_then(b)
                    }
                }
            }
            "DROP" => {
                self.ev.stack_ops += 1;
                match self.st.pop() {
                    None => {
                        self.empty_stack(pos, false);
                        None
                    }
                    Some(_) => b(pos),
                }
            }
            "PEEK_ALL" => {
                self.ev.stack_ops += 1;
                let items = self.st.content();
                let mut p = pos;
                let mut ok = true;
                for &(a, z) in items.iter().rev() {
                    match self.match_str(&self.input[a..z], p) {
                        Some(e) => p = e,
                        None => {
                            ok = false;
                            break;
                        }
                    }
                }
                if ok { b(p) } else { None }
            }
            "POP_ALL" => {
                self.ev.stack_ops += 1;
                let items = self.st.content();
                let mut p = pos;
                let mut ok = true;
                let mut matched = 0;
                for &(a, z) in items.iter().rev() {
                    match self.match_str(&self.input[a..z], p) {
                        Some(e) => {
                            p = e;
                            matched += 1;
                        }
                        None => {
                            ok = false;
                            break;
                        }
                    }
                }
                match self.cfg.stack {
                    StackKind::PestSim => {
                        // pest pops while matching; the entry that fails to match is popped too
                        let n = if ok { items.len() } else { matched + 1 };
                        for _ in 0..n {
                            self.st.pop();
                        }
                    }
                    _ => {
                        if ok {
                            for _ in 0..items.len() {
                                self.st.pop();
                            }
                        }
                    }
                }
                if ok { b(p) } else { None }
            }
            other => match pest::unicode::by_name(other) {
                Some(f) => by(self, &|c| f(c)),
                None => return Err(Abort::NotWellFounded(format!("unknown rule {}", other))),
            },
        })
    }

    fn empty_stack(&mut self, pos: usize, panics_in_pest: bool) {
        self.ev.empty_stack_ops.push(pos);
        if panics_in_pest && self.cfg.stack == StackKind::PestSim {
            self.ev.pest_panic = true;
        }
    }

    fn eval(&mut self, e: &Expr, pos: usize, atom: Atom, look: bool) -> R<Option<(usize, Node)>> {
        self.tick()?;
        match e {
            Expr::Str(s) => Ok(self.match_str(s, pos).map(|end| (end, Node::leaf(NK::Str, pos, end)))),
            Expr::Insens(s) => {
                let rest = self.rest(pos);
                let ok = match rest.get(..s.len()) {
                    Some(p) => p.eq_ignore_ascii_case(s),
                    None => false,
                };
                if ok {
                    self.touch(pos + s.len());
                    Ok(Some((pos + s.len(), Node::leaf(NK::Insens, pos, pos + s.len()))))
                } else {
                    Ok(None)
                }
            }
            Expr::Range(a, z) => match self.rest(pos).chars().next() {
                Some(c) if *a <= c && c <= *z => {
                    self.touch(pos + c.len_utf8());
                    Ok(Some((pos + c.len_utf8(), Node::leaf(NK::Range, pos, pos + c.len_utf8()))))
                }
                _ => Ok(None),
            },
            Expr::Ident(name) => self.rule_ref(name, pos, atom, look),
            Expr::PeekSlice(a, z) => {
                self.ev.stack_ops += 1;
                let len = self.st.len();
                let lo = normalize_index(*a, len);
                let hi = match z {
                    Some(z) => normalize_index(*z, len),
                    None => Some(len),
                };
                let (lo, hi) = match (lo, hi) {
                    (Some(l), Some(h)) => (l, h),
                    _ => {
                        self.ev.slice_out_of_range.push(pos);
                        return Ok(None);
                    }
                };
                let items = self.st.content();
                let mut p = pos;
                if lo < hi {
                    for &(s, t) in &items[lo..hi] {
                        match self.match_str(&self.input[s..t], p) {
                            Some(e) => p = e,
                            None => return Ok(None),
                        }
                    }
                }
                Ok(Some((p, Node::leaf(NK::PeekSlice, pos, p))))
            }
            Expr::PosPred(inner) => {
                self.ev.predicates += 1;
                let r = self.scope(Scope::Pred, |s| s.eval(inner, pos, atom, true))?;
                Ok(r.map(|(_, n)| (pos, Node { kind: NK::Pos, start: pos, end: pos, kids: vec![n] })))
            }
            Expr::NegPred(inner) => {
                self.ev.predicates += 1;
                self.neg_depth += 1;
                let r = self.scope(Scope::Pred, |s| s.eval(inner, pos, atom, true));
                self.neg_depth -= 1;
                Ok(match r? {
                    Some(_) => None,
                    None => Some((pos, Node::leaf(NK::Neg, pos, pos))),
                })
            }
            Expr::Seq(_, _) => {
                let items = e.seq_items();
                self.scope(Scope::Seq, |s| {
                    let mut p = pos;
                    let mut kids = vec![];
                    for (i, item) in items.iter().enumerate() {
                        if i > 0 && atom == Atom::NonAtomic {
                            let (np, sk) = s.skip(p)?;
                            p = np;
                            kids.push(sk);
                        }
                        match s.eval(item, p, atom, look)? {
                            Some((np, n)) => {
                                p = np;
                                kids.push(n);
                            }
                            None => return Ok(None),
                        }
                    }
                    Ok(Some((p, Node { kind: NK::Seq, start: pos, end: p, kids })))
                })
            }
            Expr::Choice(_, _) => {
                let items = e.choice_items();
                for (i, item) in items.iter().enumerate() {
                    let r = self.scope(Scope::Alt, |s| s.eval(item, pos, atom, look))?;
                    if let Some((end, n)) = r {
                        return Ok(Some((end, Node { kind: NK::Choice(i), start: pos, end, kids: vec![n] })));
                    }
                    self.ev.choice_backtracks += 1;
                }
                Ok(None)
            }
            Expr::Opt(inner) => {
                let r = self.scope(Scope::Opt, |s| s.eval(inner, pos, atom, look))?;
                Ok(Some(match r {
                    Some((end, n)) => (end, Node { kind: NK::Opt, start: pos, end, kids: vec![n] }),
                    None => (pos, Node::leaf(NK::Opt, pos, pos)),
                }))
            }
            Expr::Rep(inner) => self.rep(inner, pos, atom, look),
            Expr::RestoreOnErr(inner) => self.scope(Scope::RestoreOnErr, |s| s.eval(inner, pos, atom, look)),
            Expr::Push(inner) => {
                self.ev.stack_ops += 1;
                let r = self.eval(inner, pos, atom, look)?;
                Ok(r.map(|(end, n)| {
                    self.st.push((pos, end));
                    (end, Node { kind: NK::Push, start: pos, end, kids: vec![n] })
                }))
            }
            Expr::Skip(strings) => {
                // skip-until: stop in front of the first needle, or at the end of input
                let rest = self.rest(pos);
                let mut found = None;
                for (off, _) in rest.char_indices() {
                    if strings.iter().any(|s| rest[off..].starts_with(s.as_str())) {
                        found = Some(off);
                        break;
                    }
                }
                let end = pos + found.unwrap_or(rest.len());
                self.touch(end);
                Ok(Some((end, Node::leaf(NK::SkipUntil, pos, end))))
            }
            // The counted forms and `+` are defined by pest through unrolling into sequences,
            // optionals and `*` (pest_meta's unroller); that is their semantics in pest, skip
            // placement included, so they are evaluated through the same unrolling.
            Expr::RepOnce(inner) if self.cfg.native_plus => self.scope(Scope::Seq, |s| {
                Ok(match s.rep(inner, pos, atom, look)? {
                    Some((end, node)) if node.kids.iter().any(|k| k.kind != NK::Skip) => Some((end, node)),
                    _ => None,
                })
            }),
            Expr::RepOnce(inner) => {
                let u = Expr::Seq(inner.clone(), Box::new(Expr::Rep(inner.clone())));
                self.eval(&u, pos, atom, look)
            }
            Expr::RepExact(inner, n) => {
                let u = unroll((0..*n).map(|_| (**inner).clone()).collect());
                self.eval(&u, pos, atom, look)
            }
            Expr::RepMin(inner, n) => {
                let mut v: Vec<Expr> = (0..*n).map(|_| (**inner).clone()).collect();
                v.push(Expr::Rep(inner.clone()));
                self.eval(&unroll(v), pos, atom, look)
            }
            Expr::RepMax(inner, m) => {
                let u = unroll((0..*m).map(|_| Expr::Opt(inner.clone())).collect());
                self.eval(&u, pos, atom, look)
            }
            Expr::RepMinMax(inner, n, m) => {
                let u = unroll((0..*m).map(|i| if i < *n { (**inner).clone() } else { Expr::Opt(inner.clone()) }).collect());
                self.eval(&u, pos, atom, look)
            }
        }
    }

    /// `e*`: greedy; skip between iterations; a skip before a failing iteration is given back.
    fn rep(&mut self, inner: &Expr, pos: usize, atom: Atom, look: bool) -> R<Option<(usize, Node)>> {
        let mut p = pos;
        let mut kids = vec![];
        let mut n = 0usize;
        loop {
            self.tick()?;
            let before_stack = self.st.content();
            let r = self.scope(Scope::RepIter, |s| {
                let mut q = p;
                let mut sk = None;
                if n > 0 && atom == Atom::NonAtomic {
                    let (nq, node) = s.skip(q)?;
                    q = nq;
                    sk = Some(node);
                }
                Ok(s.eval(inner, q, atom, look)?.map(|(e, node)| (e, sk, node)))
            })?;
            match r {
                Some((end, sk, node)) => {
                    if end == p && before_stack == self.st.content() {
                        return Err(Abort::NotWellFounded("a repetition iterates without consuming input".into()));
                    }
                    if let Some(sk) = sk {
                        kids.push(sk);
                    }
                    kids.push(node);
                    p = end;
                    n += 1;
                    if n > self.ev.rep_iterations_max {
                        self.ev.rep_iterations_max = n;
                    }
                }
                None => break,
            }
        }
        Ok(Some((p, Node { kind: NK::Rep, start: pos, end: p, kids })))
    }
}

fn unroll(mut v: Vec<Expr>) -> Expr {
    // right-nested sequence, exactly the shape pest's unroller builds
    let mut acc = v.pop().expect("pest rejects zero repetitions");
    while let Some(e) = v.pop() {
        acc = Expr::Seq(Box::new(e), Box::new(acc));
    }
    acc
}

// -----------------------------------------------------------------------------------------
// projections of the derivation

#[derive(Clone, Debug, PartialEq, Eq, PartialOrd, Ord, Hash)]
pub struct Tok {
    pub rule: String,
    pub start: usize,
    pub end: usize,
    pub kids: Vec<Tok>,
}

impl Tok {
    pub fn count(&self) -> usize {
        1 + self.kids.iter().map(|k| k.count()).sum::<usize>()
    }
    pub fn depth(&self) -> usize {
        1 + self.kids.iter().map(|k| k.depth()).max().unwrap_or(0)
    }
    pub fn render(&self) -> String {
        if self.kids.is_empty() {
            format!("{}({},{})", self.rule, self.start, self.end)
        } else {
            format!("{}({},{})[{}]", self.rule, self.start, self.end, self.kids.iter().map(|k| k.render()).collect::<Vec<_>>().join(" "))
        }
    }
}

pub fn render_toks(v: &[Tok]) -> String {
    v.iter().map(|t| t.render()).collect::<Vec<_>>().join(" ")
}

#[derive(Clone, Copy, Debug, PartialEq, Eq)]
pub enum Emission {
    /// pest's emission rule (atomic context suppresses tokens)
    Pest,
    /// pest's rule followed by the documented pruning: no descendants under @ and $ tokens
    Spec,
    /// pest-typed's structural rule: every non-silent rule outside lookahead, nothing below
    /// @ and $ rules (used to classify finding K3)
    Typed,
    /// tokens of a typed node looked at on its own (a getter result): as `Typed`, but the
    /// node may itself sit inside a predicate
    TypedStruct,
}

/// Token forest of a derivation node (a silent entry rule yields a forest).
pub fn tokens(g: &Grammar, n: &Node, mode: Emission, out: &mut Vec<Tok>) {
    match &n.kind {
        NK::Rule { idx, kind, emit_pest, look } => {
            let name = &g.raw[*idx].name;
            let emit = match mode {
                Emission::Pest | Emission::Spec => *emit_pest,
                Emission::Typed => *kind != Kind::Silent && !*look,
                Emission::TypedStruct => *kind != Kind::Silent,
            };
            if emit {
                let mut kids = vec![];
                let prune = matches!(kind, Kind::Atomic | Kind::Compound) && mode != Emission::Pest;
                if !prune {
                    for k in &n.kids {
                        tokens(g, k, mode, &mut kids);
                    }
                }
                out.push(Tok { rule: name.clone(), start: n.start, end: n.end, kids });
            } else {
                for k in &n.kids {
                    tokens(g, k, mode, out);
                }
            }
        }
        NK::Eoi { emit_pest, look } => {
            let emit = match mode {
                Emission::Pest | Emission::Spec => *emit_pest,
                Emission::Typed => !*look,
                Emission::TypedStruct => true,
            };
            if emit {
                out.push(Tok { rule: "EOI".into(), start: n.start, end: n.end, kids: vec![] });
            }
        }
        NK::Pos | NK::Neg => {}
        _ => {
            for k in &n.kids {
                tokens(g, k, mode, out);
            }
        }
    }
}

pub fn token_forest(g: &Grammar, n: &Node, mode: Emission) -> Vec<Tok> {
    let mut v = vec![];
    tokens(g, n, mode, &mut v);
    v
}

/// Remove every token that lies below a WHITESPACE / COMMENT token, and tokens produced by
/// silent skip rules (used when classifying K3).
pub fn strip_skip_rule_bodies(v: &[Tok]) -> Vec<Tok> {
    v.iter()
        .map(|t| {
            if t.rule == "WHITESPACE" || t.rule == "COMMENT" {
                Tok { kids: vec![], ..t.clone() }
            } else {
                Tok { kids: strip_skip_rule_bodies(&t.kids), ..t.clone() }
            }
        })
        .collect()
}

pub fn run(g: &Grammar, cfg: &Cfg, rule: &str, input: &str, lo: usize, hi: usize) -> Run {
    Interp::new(g, cfg.clone(), input, lo, hi).run_rule(rule)
}
