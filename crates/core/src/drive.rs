//! Entry point of the generated runner: property drivers over the compiled grammar corpus.
//!
//! usage: runner <Cxx> [--tier quick|thorough] [--seed N] [--only <grammar id>]
//!        runner replay <file>
//!        runner list

use crate::api::*;
use crate::common::*;
use crate::ir::{Grammar, Kind};
use crate::sentence::{SentenceGen, Tape};
use proptest::prelude::*;
use proptest::test_runner::{Config, RngSeed, TestError, TestRunner};
use serde_json::{json, Value};
use std::sync::atomic::{AtomicU64, Ordering};
use std::sync::{Arc, Mutex};

pub struct GInfo {
    pub g: &'static dyn GrammarUnderTest,
    pub ir: &'static Grammar,
    pub sg: SentenceGen<'static>,
    /// entry rules in dispatch order: (name, kind); EOI last
    pub rules: Vec<(String, Kind)>,
    pub uses_stack: bool,
}

impl GInfo {
    pub fn new(g: &'static dyn GrammarUnderTest) -> GInfo {
        let ir: &'static Grammar = Box::leak(Box::new(Grammar::parse(g.text()).expect("corpus grammar must be pest-valid")));
        let rules = g
            .rules()
            .iter()
            .map(|n| (n.to_string(), ir.rule(n).map(|r| r.kind).unwrap_or(Kind::Normal)))
            .collect();
        GInfo { g, ir, sg: SentenceGen::new(ir), rules, uses_stack: ir.uses_stack() }
    }
    pub fn describe(&self) -> Value {
        json!({"id": self.g.id(), "family": self.g.family(), "text": self.g.text(), "options": self.g.options(), "forms": self.g.forms()})
    }
}

pub enum CaseResult {
    Ok,
    /// explained by an open known finding (id)
    Known(&'static str),
    Violation(Value),
}

pub struct Ctx {
    pub prop: &'static str,
    pub tier: Tier,
    pub seed: u64,
    pub ev: Evidence,
    pub findings: Vec<Finding>,
    pub progress: Arc<AtomicU64>,
    pub current: Arc<Mutex<String>>,
    pub only: Option<String>,
    pub dump: Option<String>,
}

impl Ctx {
    pub fn open(&self, id: &str) -> bool {
        self.findings.iter().any(|f| f.id == id && f.open())
    }
}

fn runner_for(seed: u64, cases: u32) -> TestRunner {
    TestRunner::new(Config { cases, failure_persistence: None, rng_seed: RngSeed::Fixed(seed), max_shrink_iters: 2000, ..Config::default() })
}

/// Run `cases` tape-driven cases for one (grammar, rule).  Returns the first violation
/// (shrunk).  Known findings are counted and the search continues.
pub fn tape_cases(
    ctx: &mut Ctx,
    gi: &GInfo,
    rule: usize,
    cases: u32,
    tape_len: usize,
    mut f: impl FnMut(&mut Ctx, &GInfo, usize, &[u8]) -> CaseResult,
) -> Option<Value> {
    let seed = sub_seed(ctx.seed, &format!("{}/{}/{}", ctx.prop, gi.g.id(), gi.rules[rule].0));
    let mut runner = runner_for(seed, cases);
    let strat = prop::collection::vec(any::<u8>(), 0..tape_len);
    let cell = std::cell::RefCell::new((ctx, &mut f));
    let res = runner.run(&strat, |tape| {
        let mut b = cell.borrow_mut();
        let (ctx, f) = &mut *b;
        ctx.progress.fetch_add(1, Ordering::Relaxed);
        if let Ok(mut c) = ctx.current.lock() {
            *c = format!("{{\"grammar\":{:?},\"rule\":{:?},\"tape\":{:?}}}", gi.g.id(), gi.rules[rule].0, tape);
        }
        match f(ctx, gi, rule, &tape) {
            CaseResult::Ok => Ok(()),
            CaseResult::Known(id) => {
                ctx.ev.known_finding(id);
                Ok(())
            }
            CaseResult::Violation(v) => {
                ctx.ev.frozen = true;
                Err(TestCaseError::fail(v.to_string()))
            }
        }
    });
    let (ctx, _) = cell.into_inner();
    ctx.ev.frozen = false;
    match res {
        Ok(()) => None,
        Err(TestError::Fail(reason, _)) => {
            let txt = reason.message().to_string();
            Some(serde_json::from_str(&txt).unwrap_or(json!({"property": ctx.prop, "why": txt})))
        }
        Err(TestError::Abort(r)) => Some(json!({"property": ctx.prop, "why": format!("proptest aborted: {}", r)})),
    }
}

/// Execute the stored reproducers of the open findings that list this property through the
/// property's own check: prints one KNOWN-FINDING line per reproducer that still fails in the
/// way the finding describes; a reproducer that fails in another way is a violation.
pub fn run_reproducers(world: &World, ctx: &mut Ctx, mut check: impl FnMut(&mut Ctx, &GInfo, usize, &str) -> CaseResult) -> Option<Value> {
    let findings = ctx.findings.clone();
    let prop = ctx.prop;
    for f in findings.iter().filter(|f| f.open() && f.properties.iter().any(|p| p == prop)) {
        for (k, rep) in f.raw["reproducers"].as_array().cloned().unwrap_or_default().iter().enumerate() {
            let id = format!("kf_{}_{}", f.id, k);
            // a reproducer may be meant for some of the finding's properties only
            if let Some(ps) = rep["properties"].as_array() {
                if !ps.iter().any(|p| p.as_str() == Some(prop)) {
                    continue;
                }
            }
            let gi = match world.grammars.iter().find(|g| g.g.id() == id) {
                Some(g) => g,
                None => continue,
            };
            let rule = match gi.rules.iter().position(|r| Some(r.0.as_str()) == rep["rule"].as_str()) {
                Some(r) => r,
                None => continue,
            };
            let input = rep["input"].as_str().unwrap_or("");
            match check(ctx, gi, rule, input) {
                CaseResult::Known(kid) if kid == f.id => {
                    ctx.ev.known_finding(kid);
                    print_known(ctx.prop, &f.id, rep["what"].as_str().unwrap_or(&f.what));
                }
                CaseResult::Known(_) | CaseResult::Ok => {}
                CaseResult::Violation(v) => return Some(v),
            }
        }
    }
    None
}

pub fn violation(ctx: &Ctx, gi: &GInfo, rule: usize, input: &str, why: String, extra: Value) -> CaseResult {
    CaseResult::Violation(json!({
        "property": ctx.prop,
        "grammar": gi.describe(),
        "rule": gi.rules[rule].0,
        "input": input,
        "why": why,
        "detail": extra,
        "seed": ctx.seed as i64,
    }))
}

/// Standard input for (grammar, rule) from a tape.
pub fn input_from(gi: &GInfo, rule: usize, tape: &[u8]) -> (String, usize) {
    let mut t = Tape::new(tape);
    let s = gi.sg.input(&gi.rules[rule].0, &mut t);
    // keep inputs small: both parsers recurse
    let s: String = s.chars().take(64).collect();
    (s, 0)
}

/// The properties quantify over well-founded cases only (no left recursion, no repetition
/// that iterates without consuming): the reference interpreter must finish on the case before
/// either parser is started on it - pest and pest-typed both loop forever otherwise.
pub fn well_founded(ctx: &mut Ctx, gi: &GInfo, rule: usize, host: &str, lo: usize, hi: usize) -> bool {
    let r = crate::interp::run(gi.ir, &crate::interp::Cfg::default(), &gi.rules[rule].0, host, lo, hi);
    if !r.defined() {
        ctx.ev.count("excluded.not_well_founded_or_budget");
        return false;
    }
    // the defect models can differ in termination from the specification (K1: skip rules
    // that skip inside themselves)
    if ctx.open("K1") && (gi.ir.has_ws() || gi.ir.has_comment()) {
        let k = crate::interp::run(gi.ir, &crate::interp::Cfg { k1: true, ..crate::interp::Cfg::default() }, &gi.rules[rule].0, host, lo, hi);
        if !k.defined() {
            ctx.ev.count("excluded.not_well_founded_under_K1");
            return false;
        }
    }
    true
}

pub fn hash_case(gi: &GInfo, rule: usize, input: &str, extra: u64) -> u64 {
    fnv(format!("{}\u{0}{}\u{0}{}\u{0}{}", gi.g.id(), rule, input, extra).as_bytes())
}

pub fn replay_ctx(prop: &str) -> Ctx {
    let prop: &'static str = Box::leak(prop.to_string().into_boxed_str());
    Ctx { prop, tier: Tier::Quick, seed: 0, ev: Evidence::new(prop, Tier::Quick, 0, "replay"), findings: load_findings(), progress: Arc::new(AtomicU64::new(0)), current: Arc::new(Mutex::new(String::new())), only: None, dump: None }
}

pub struct World {
    pub grammars: Vec<GInfo>,
}

fn watchdog(progress: Arc<AtomicU64>, current: Arc<Mutex<String>>, prop: &'static str) {
    std::thread::spawn(move || {
        let mut last = progress.load(Ordering::Relaxed);
        let mut stalled = 0u32;
        loop {
            std::thread::sleep(std::time::Duration::from_secs(1));
            let now = progress.load(Ordering::Relaxed);
            if now == last {
                stalled += 1;
            } else {
                stalled = 0;
                last = now;
            }
            if stalled >= 30 {
                let cur = current.lock().map(|c| c.clone()).unwrap_or_default();
                let doc: Value = serde_json::from_str(&cur).unwrap_or(json!({"case": cur}));
                if prop == "C11" {
                    let mut d = doc.clone();
                    d["property"] = json!("C11");
                    d["why"] = json!("a parse of a well-founded case did not return within 30 s");
                    report_violation("C11", &d);
                    std::process::exit(1);
                }
                eprintln!("runner: watchdog - no progress for 30 s in {} at case {}: inconclusive", prop, doc);
                std::process::exit(2);
            }
        }
    });
}

pub fn main(gs: Vec<&'static dyn GrammarUnderTest>) {
    let args = Args::parse();
    let cmd = args.positional.first().cloned().unwrap_or_default();
    if std::env::var("VERIF_SHOW_PANICS").is_err() {
        std::panic::set_hook(Box::new(|_| {}));
    }
    if cmd == "list" {
        for g in &gs {
            println!("{} {} rules={} forms={}", g.id(), g.family(), g.rules().len(), g.forms());
        }
        return;
    }
    // big stack: both parsers and R are recursive
    let child = std::thread::Builder::new()
        .stack_size(1 << 30)
        .spawn(move || {
            let r = std::panic::catch_unwind(std::panic::AssertUnwindSafe(|| run(&cmd, &args, gs)));
            match r {
                Ok(code) => code,
                Err(e) => {
                    let msg = if let Some(s) = e.downcast_ref::<&str>() { s.to_string() } else if let Some(s) = e.downcast_ref::<String>() { s.clone() } else { "?".into() };
                    eprintln!("runner: internal error (harness panic: {}) - inconclusive", msg);
                    2
                }
            }
        })
        .expect("spawn");
    let code = child.join().unwrap_or(2);
    std::process::exit(code);
}

fn run(cmd: &str, args: &Args, gs: Vec<&'static dyn GrammarUnderTest>) -> i32 {
    let only = args.get("only").map(String::from);
    let grammars: Vec<GInfo> = gs.into_iter().filter(|g| only.as_deref().map(|o| g.id() == o).unwrap_or(true)).map(GInfo::new).collect();
    let world = World { grammars };
    if cmd == "c09cmp" {
        let a = args.get("debug").expect("--debug");
        let b = args.get("release").expect("--release");
        return match crate::props::p09::compare_dumps(a, b, args.get("status").unwrap_or("0")) {
            Some(v) => {
                report_violation("C09", &v);
                1
            }
            None => {
                println!("C09 release-like comparison ok");
                0
            }
        };
    }
    if cmd == "replay" {
        let path = args.positional.get(1).expect("replay <file>");
        let doc: Value = serde_json::from_str(&std::fs::read_to_string(path).expect("read replay")).expect("json");
        return crate::props::replay(&world, &doc, path);
    }
    let prop: &'static str = Box::leak(cmd.to_uppercase().into_boxed_str());
    let tier = args.tier();
    let seed = args.seed();
    let progress = Arc::new(AtomicU64::new(0));
    let current = Arc::new(Mutex::new(String::new()));
    watchdog(progress.clone(), current.clone(), prop);
    let mut ctx = Ctx { prop, tier, seed, ev: Evidence::new(prop, tier, seed, ""), findings: load_findings(), progress, current, only, dump: args.get("dump").map(String::from) };
    let res = crate::props::run_property(&world, &mut ctx);
    match res {
        Some(v) => {
            ctx.ev.violations = 1;
            ctx.ev.violation_sample(&v);
            if args.get("no-evidence").is_none() {
                ctx.ev.write();
            }
            report_violation(prop, &v);
            1
        }
        None => {
            if ctx.ev.evaluations == 0 {
                eprintln!("runner: property {} has no driver", prop);
                return 2;
            }
            if args.get("no-evidence").is_none() {
                ctx.ev.write();
            }
            println!("{} ok: {} evaluations, {} distinct non-trivial", prop, ctx.ev.evaluations, ctx.ev.distinct_nontrivial());
            0
        }
    }
}

// ---------------------------------------------------------------------------------------
// libFuzzer entry (thorough tier): one in-process function over the compiled corpus

pub struct FuzzWorld {
    pub world: World,
    pub ctx: Ctx,
    pub pairs: Vec<(usize, usize)>,
}

pub fn fuzz_init(gs: Vec<&'static dyn GrammarUnderTest>) -> FuzzWorld {
    std::panic::set_hook(Box::new(|info| {
        // keep the violation document visible, silence the panics the oracles catch on purpose
        let msg = info.payload().downcast_ref::<String>().cloned().unwrap_or_default();
        if msg.starts_with("VIOLATION-DOC") {
            eprintln!("{}", msg);
        }
    }));
    let grammars: Vec<GInfo> = gs.into_iter().map(GInfo::new).collect();
    let mut pairs = vec![];
    for (gi, g) in grammars.iter().enumerate() {
        if g.g.family() == "options" && !g.g.options().is_empty() {
            continue;
        }
        for r in 0..g.rules.len() {
            pairs.push((gi, r));
        }
    }
    let mut ctx = replay_ctx("C01");
    ctx.ev.frozen = true; // no bookkeeping inside the fuzz loop
    FuzzWorld { world: World { grammars }, ctx, pairs }
}

/// bytes -> (grammar, rule, input): two bytes select the pair, one byte the decoding (tape-
/// driven sentence or raw text), the rest is the tape / the text.  Oracles: C01 (verdict and
/// offset against pest / the reference), C03 (check vs parse), C09 (totality, offsets).
/// Listed findings are tolerated in-target so that the campaign goes on behind them.
pub fn fuzz_one(fw: &mut FuzzWorld, data: &[u8]) {
    if data.len() < 3 || fw.pairs.is_empty() {
        return;
    }
    let k = ((data[0] as usize) << 8 | data[1] as usize) % fw.pairs.len();
    let (gi, rule) = fw.pairs[k];
    let g = &fw.world.grammars[gi];
    let input: String = if data[2] & 1 == 0 {
        input_from(g, rule, &data[3..]).0
    } else {
        String::from_utf8_lossy(&data[3..]).chars().take(64).collect()
    };
    let ctx = &mut fw.ctx;
    let mut results = vec![];
    ctx.prop = "C01";
    results.push(crate::props::p01::check_input(ctx, g, rule, &input));
    ctx.prop = "C03";
    results.push(crate::props::p03::check_forms(ctx, g, rule, &input, Form::Str));
    ctx.prop = "C09";
    results.push(crate::props::p09::check_case(ctx, g, rule, &input, Form::Str, &mut crate::props::p09::Dump { file: None }));
    for r in results {
        if let CaseResult::Violation(v) = r {
            panic!("VIOLATION-DOC {}", v);
        }
    }
}
