//! The grammar corpus of one run: which grammars (family, text, derive options) are compiled
//! into the shards.  Pure function of (seed, tier).

use crate::common::{sub_seed, Rng, Tier};
use crate::grammargen::{valid_grammar, GenStats, Profile};
use crate::ir::{Grammar, Kind};
use serde_json::{json, Value};

#[derive(Clone, Debug)]
pub struct Spec {
    pub id: String,
    pub family: String,
    pub text: String,
    /// derive attributes, e.g. ["emit_rule_reference", "box_only_if_needed"]
    pub options: Vec<String>,
    /// compile the Position / Span input forms for this grammar
    pub forms: bool,
    /// extra probe code (C16/C17), generated elsewhere
    pub probes: Vec<String>,
}

impl Spec {
    pub fn new(id: &str, family: &str, text: &str) -> Spec {
        Spec { id: id.into(), family: family.into(), text: text.into(), options: vec![], forms: false, probes: vec![] }
    }
    pub fn to_json(&self) -> Value {
        json!({"id": self.id, "family": self.family, "text": self.text, "options": self.options, "forms": self.forms, "probes": self.probes})
    }
    pub fn from_json(v: &Value) -> Spec {
        Spec {
            id: v["id"].as_str().unwrap_or("g").to_string(),
            family: v["family"].as_str().unwrap_or("replay").to_string(),
            text: v["text"].as_str().unwrap_or("").to_string(),
            options: v["options"].as_array().map(|a| a.iter().filter_map(|x| x.as_str().map(String::from)).collect()).unwrap_or_default(),
            forms: v["forms"].as_bool().unwrap_or(true),
            probes: v["probes"].as_array().map(|a| a.iter().filter_map(|x| x.as_str().map(String::from)).collect()).unwrap_or_default(),
        }
    }
}

pub struct Corpus {
    pub specs: Vec<Spec>,
    pub stats: GenStats,
    pub rejected: Vec<String>,
}

pub const REPO_GRAMMARS: [(&str, &str); 4] = [
    ("repo_grammar", "/repo/derive/tests/grammar.pest"),
    ("repo_syntax", "/repo/generator/tests/syntax.pest"),
    ("repo_csv", "/repo/derive/examples/csv.pest"),
    ("repo_json", "/repo/derive/benches/json.pest"),
];

fn kinds_name(k: Kind) -> &'static str {
    match k {
        Kind::Normal => "n",
        Kind::Silent => "s",
        Kind::Atomic => "a",
        Kind::Compound => "c",
        Kind::NonAtomic => "x",
    }
}

/// Atomicity family (C07): every chain of rule kinds k1 -> k2 (-> k3) around a sequence and a
/// repetition, for one WHITESPACE/COMMENT combination.
pub fn atomicity_grammar(ws: bool, comment: bool, depth3: bool) -> String {
    atomicity_grammar_with(ws, comment, depth3, false)
}

/// `block`: COMMENT is a block comment (an opener can occur inside a comment)
pub fn atomicity_grammar_with(ws: bool, comment: bool, depth3: bool, block: bool) -> String {
    let mut out = String::new();
    // leaves per kind: a sequence and a repetition
    for k in Kind::ALL {
        out.push_str(&format!("l_{}_seq = {}{{ \"x\" ~ \"y\" }}\n", kinds_name(k), k.sigil()));
        out.push_str(&format!("l_{}_rep = {}{{ \"x\"+ }}\n", kinds_name(k), k.sigil()));
        out.push_str(&format!("l_{}_star = {}{{ \"x\"* ~ \"y\" }}\n", kinds_name(k), k.sigil()));
    }
    for k1 in Kind::ALL {
        for k2 in Kind::ALL {
            let (a, b) = (kinds_name(k1), kinds_name(k2));
            out.push_str(&format!("m_{}{}_seq = {}{{ \"a\" ~ l_{}_seq ~ \"b\" }}\n", a, b, k1.sigil(), b));
            out.push_str(&format!("m_{}{}_rep = {}{{ (l_{}_rep ~ \";\")+ }}\n", a, b, k1.sigil(), b));
            out.push_str(&format!("m_{}{}_star = {}{{ \"a\" ~ l_{}_star ~ (l_{}_star)* }}\n", a, b, k1.sigil(), b, b));
        }
    }
    if depth3 {
        for k0 in Kind::ALL {
            for k1 in Kind::ALL {
                for k2 in Kind::ALL {
                    let (z, a, b) = (kinds_name(k0), kinds_name(k1), kinds_name(k2));
                    out.push_str(&format!("t_{}{}{}_seq = {}{{ \"<\" ~ m_{}{}_seq ~ \">\" }}\n", z, a, b, k0.sigil(), a, b));
                    out.push_str(&format!("t_{}{}{}_rep = {}{{ (m_{}{}_rep ~ \",\")* ~ \".\" }}\n", z, a, b, k0.sigil(), a, b));
                }
            }
        }
    }
    if ws {
        out.push_str("WHITESPACE = _{ \" \" }\n");
    }
    if comment && block {
        out.push_str("COMMENT = _{ \"/*\" ~ (!\"*/\" ~ ANY)* ~ \"*/\" }\n");
    } else if comment {
        out.push_str("COMMENT = _{ \"#\" ~ (!\"#\" ~ ANY)* ~ \"#\" }\n");
    }
    out
}

/// Slice family (C06): one rule per slice form.
pub fn slice_grammar(lo: i32, hi: i32) -> String {
    let mut out = String::new();
    out.push_str("item = { \"ab\" | \"a\" | \"b\" }\n");
    let n = |i: i32| if i < 0 { format!("m{}", -i) } else { format!("p{}", i) };
    for a in lo..=hi {
        out.push_str(&format!("s_{}_open = ${{ (PUSH(item) ~ \",\")* ~ \";\" ~ PEEK[{}..] ~ \"!\" }}\n", n(a), a));
        out.push_str(&format!("s_to_{} = ${{ (PUSH(item) ~ \",\")* ~ \";\" ~ PEEK[..{}] ~ \"!\" }}\n", n(a), a));
        for b in lo..=hi {
            out.push_str(&format!("s_{}_{} = ${{ (PUSH(item) ~ \",\")* ~ \";\" ~ PEEK[{}..{}] ~ \"!\" }}\n", n(a), n(b), a, b));
        }
    }
    out
}

/// Stack-scope family (C05, C01, C03): every backtracking construct around a stack operation
/// that succeeds before the construct fails, followed by a stack read that tells; in a normal
/// (parse path) and an atomic / compound (check path) version.
pub fn stackscope_grammar() -> String {
    let bodies = [
        ("opt", "PUSH(\"x\") ~ (PUSH(\"a\") ~ \"b\")? ~ \"a\" ~ POP ~ POP?"),
        ("alt", "PUSH(\"x\") ~ (PUSH(\"a\") ~ \"b\" | \"a\") ~ POP ~ \"!\""),
        ("rep", "PUSH(\"x\") ~ (PUSH(\"a\") ~ \"b\")* ~ \"a\"? ~ PEEK_ALL ~ \"!\""),
        ("pos", "PUSH(\"x\") ~ &(PUSH(\"a\") ~ \"a\") ~ \"a\" ~ PEEK_ALL ~ \"!\""),
        ("neg", "PUSH(\"x\") ~ !(PUSH(\"a\") ~ \"b\") ~ \"a\" ~ PEEK_ALL ~ \"!\""),
        ("dropalt", "PUSH(\"x\") ~ PUSH(\"y\") ~ (DROP ~ \"b\" | \"a\") ~ POP ~ POP ~ \"!\""),
        ("popopt", "PUSH(\"x\") ~ PUSH(\"y\") ~ (POP ~ \"b\")? ~ PEEK ~ \"!\""),
        ("popallalt", "PUSH(\"x\") ~ PUSH(\"y\") ~ (POP_ALL ~ \"!\" | \"yx\") ~ PEEK_ALL ~ \"?\""),
        ("nested", "PUSH(\"x\") ~ ((PUSH(\"a\") ~ (PUSH(\"b\") ~ \"c\")? ~ \"d\")? ~ \"ab\")? ~ PEEK_ALL ~ \"!\""),
        ("repalt", "(PUSH(\"a\") ~ \"-\" | PUSH(\"b\") ~ \"+\" ~ \"+\")* ~ \";\" ~ POP_ALL ~ \"!\""),
        ("viarule", "PUSH(\"x\") ~ pusher? ~ \"a\" ~ POP ~ \"!\""),
    ];
    let mut out = String::from("pusher = { PUSH(\"a\") ~ \"b\" }\n");
    for (n, b) in bodies {
        out.push_str(&format!("so_{} = {{ {} }}\n", n, b));
        out.push_str(&format!("sa_{} = @{{ {} }}\n", n, b));
        out.push_str(&format!("sc_{} = ${{ {} }}\n", n, b));
    }
    out
}

/// Stack built-ins in every atomicity context (C06).
pub fn stack_builtin_grammar() -> String {
    let mut out = String::new();
    out.push_str("WHITESPACE = _{ \" \" }\n");
    out.push_str("item = { \"ab\" | \"a\" | \"b\" }\n");
    out.push_str("pushes = _{ (PUSH(item) ~ \",\")* ~ \";\" }\n");
    for (k, s) in [("n", ""), ("x", "!"), ("a", "@"), ("c", "$")] {
        out.push_str(&format!("peek_{k} = {s}{{ pushes ~ PEEK ~ \"!\" }}\n"));
        out.push_str(&format!("pop_{k} = {s}{{ pushes ~ POP ~ POP? ~ \"!\" }}\n"));
        out.push_str(&format!("drop_{k} = {s}{{ pushes ~ DROP ~ PEEK_ALL ~ \"!\" }}\n"));
        out.push_str(&format!("peekall_{k} = {s}{{ pushes ~ PEEK_ALL ~ \"!\" }}\n"));
        out.push_str(&format!("popall_{k} = {s}{{ pushes ~ POP_ALL ~ PEEK_ALL ~ \"!\" }}\n"));
        out.push_str(&format!("pushskip_{k} = {s}{{ PUSH(\"a\" ~ \"b\") ~ \";\" ~ PEEK ~ \"!\" }}\n"));
        out.push_str(&format!("dropempty_{k} = {s}{{ \"d\" ~ (DROP | \"e\") ~ \"!\" }}\n"));
    }
    out
}

/// Sub-input family (C08, C09): rules whose outcome is sensitive to where the input ends or
/// starts: skip-until needles, literals and ranges that could straddle a cut, SOI / EOI in
/// non-initial positions, multi-byte characters.
pub fn subinput_grammar() -> String {
    [
        "until2 = @{ (!(\"XY\") ~ ANY)* }",
        "until_wrapped = @{ \"a\" ~ (!(\"Xb\" | \"bY\") ~ ANY)* ~ (\"Xb\" | \"bY\") }",
        "until_then = @{ (!(\"YX\") ~ ANY)* ~ \"YX\"? ~ \"a\"* }",
        "eoi_mid = { \"a\"* ~ (EOI ~ \"\" | \"b\") }",
        "soi_mid = { \"a\"? ~ (SOI ~ \"X\" | \"Y\") }",
        "lit = { \"abX\" | \"ab\" | \"a\" }",
        "ins = { ^\"abé\" | ^\"ab\" | ^\"x\" }",
        "multi = { (\"é\" | \"中\" | \"😀\" | \"a\")* ~ \"X\"? }",
        "rng = { ('a'..'b')+ ~ 'X'..'Y'? }",
        "nl = { (NEWLINE | \"a\")* }",
        "peekr = { PUSH(\"a\"+) ~ \"X\" ~ PEEK }",
        "anyn = { ANY ~ ANY ~ ANY? }",
        "notp = { (!\"ab\" ~ ANY)* }",
        "seqws = { \"a\" ~ \"b\" ~ \"X\"? }",
        "WHITESPACE = _{ \" \" }",
    ]
    .join("\n")
}

pub const OPTION_SETS: [(&str, &[&str]); 8] = [
    ("default", &[]),
    ("box", &["box_only_if_needed"]),
    ("refs", &["emit_rule_reference"]),
    ("tags", &["emit_tagged_node_reference"]),
    ("nospan", &["do_not_emit_span"]),
    ("nowarn", &["no_warnings"]),
    ("noopt", &["pest_optimizer = false"]),
    ("all", &["box_only_if_needed", "emit_rule_reference", "emit_tagged_node_reference", "do_not_emit_span", "no_warnings", "pest_optimizer = false"]),
];

fn is_recursive(g: &Grammar) -> bool {
    let mut m = std::collections::BTreeMap::new();
    crate::grammargen::feature_counts(g, &mut m);
    m.contains_key("grammar.recursive")
}

pub fn build(seed: u64, tier: Tier) -> Corpus {
    let mut specs = vec![];
    let mut stats = GenStats::default();
    let mut rejected = vec![];
    let (n_general, n_stack) = tier.pick((40, 12), (48, 16));
    let mut rng = Rng::new(sub_seed(seed, "corpus.general"));
    for i in 0..n_general {
        let g = valid_grammar(&mut rng, &Profile::general(), &mut stats, &mut rejected);
        let mut s = Spec::new(&format!("gen{:03}", i), "general", &g.text);
        s.forms = i % 4 == 0;
        specs.push(s);
    }
    let mut rng = Rng::new(sub_seed(seed, "corpus.stack"));
    for i in 0..n_stack {
        let g = valid_grammar(&mut rng, &Profile::stack(), &mut stats, &mut rejected);
        let mut s = Spec::new(&format!("stk{:03}", i), "stack", &g.text);
        s.forms = i % 4 == 0;
        specs.push(s);
    }
    for (ws, cm) in [(false, false), (true, false), (false, true), (true, true)] {
        let text = atomicity_grammar(ws, cm, tier == Tier::Thorough);
        specs.push(Spec::new(&format!("atom_{}{}", ws as u8, cm as u8), "atomicity", &text));
    }
    for (ws, cm) in [(false, true), (true, true)] {
        let text = atomicity_grammar_with(ws, cm, false, true);
        specs.push(Spec::new(&format!("atomb_{}{}", ws as u8, cm as u8), "atomicity", &text));
    }
    let (lo, hi) = tier.pick((-3, 3), (-6, 6));
    specs.push(Spec::new("slice", "slice", &slice_grammar(lo, hi)));
    specs.push(Spec::new("stackbuiltin", "slice", &stack_builtin_grammar()));
    // zero-width repetition bodies that make progress on the stack only (pest accepts them)
    let zero = "dz_star = { PUSH(\"a\") ~ PUSH(\"b\") ~ DROP* ~ PEEK_ALL ~ \"c\" }\ndz_plus = { PUSH(\"a\"+) ~ PUSH(\"b\"+) ~ \"-\" ~ undo+ ~ PEEK_ALL ~ \"!\" }\nundo = { DROP }\ndz_pred = ${ (PUSH(\"a\") ~ \",\")* ~ (&\"c\" ~ DROP)* ~ PEEK_ALL ~ \"c\" }";
    if Grammar::parse(zero).is_ok() {
        specs.push(Spec::new("stackzero", "stack", zero));
    }
    {
        let mut s = Spec::new("stackscope", "stack", &stackscope_grammar());
        s.forms = true;
        specs.push(s);
    }
    // options family (C20): recursive grammars x option sets, each variant its own module
    let n_opt = tier.pick(5, 10);
    let mut rng = Rng::new(sub_seed(seed, "corpus.options"));
    let mut k = 0;
    while k < n_opt {
        let g = valid_grammar(&mut rng, &Profile::recursive(), &mut stats, &mut rejected);
        if !is_recursive(&g) {
            continue;
        }
        for (vn, opts) in OPTION_SETS {
            let mut s = Spec::new(&format!("opt{:02}_{}", k, vn), "options", &g.text);
            s.options = opts.iter().map(|o| o.to_string()).collect();
            specs.push(s);
        }
        k += 1;
    }
    // hand-written cycles through options, repetitions, choices and skip rules
    let cyc = "a = { \"a\" ~ b* }\nb = { \"b\" ~ c? }\nc = { a+ | \"(\" ~ d ~ \")\" }\nd = _{ (c | e)* }\ne = ${ \"e\" ~ a? }\nWHITESPACE = _{ \" \" }\nCOMMENT = { \"#\" ~ (!\"#\" ~ ANY)* ~ \"#\" }";
    // a long top-down cycle through sequences, choices and options only, leaf rules last
    let expr = "expr = { term ~ (add_op ~ term)* }\nterm = { factor ~ (mul_op ~ factor)* }\nfactor = { neg? ~ primary }\nprimary = { paren | number | ident }\nparen = { \"(\" ~ expr ~ \")\" }\nnumber = @{ ASCII_DIGIT+ }\nident = @{ ASCII_ALPHA+ }\nadd_op = { \"+\" | \"-\" }\nmul_op = { \"*\" | \"/\" }\nneg = { \"-\" }\nrest = { \";\" ~ (!NEWLINE ~ !ASCII_HEX_DIGIT ~ ANY)* }\nWHITESPACE = _{ \" \" }";
    for (vn, opts) in OPTION_SETS {
        let mut s = Spec::new(&format!("optex_{}", vn), "options", expr);
        s.options = opts.iter().map(|o| o.to_string()).collect();
        specs.push(s);
    }
    // the kind-nesting family without the optimizer: rule kinds are translated twice in the
    // generator (raw and optimised AST)
    let atom = atomicity_grammar(true, true, false).replace("\"x\"+", "\"x\"*");
    for (vn, opts) in [OPTION_SETS[0], OPTION_SETS[6]] {
        let mut s = Spec::new(&format!("optat_{}", vn), "options", &atom);
        s.options = opts.iter().map(|o| o.to_string()).collect();
        specs.push(s);
    }
    for (vn, opts) in OPTION_SETS {
        let mut s = Spec::new(&format!("optcy_{}", vn), "options", cyc);
        s.options = opts.iter().map(|o| o.to_string()).collect();
        specs.push(s);
    }
    // Unicode property family (C01, C02, C09): one rule per property name; all names in the
    // thorough tier, a seed-rotated slice of 48 in the quick tier
    {
        // INHERITED is kept out of the family: finding K7 (its own reproducer grammar is compiled)
        let names: Vec<&str> = pest::unicode::unicode_property_names().filter(|n| *n != "INHERITED").collect();
        let per = 48;
        let chunks: Vec<&[&str]> = names.chunks(per).collect();
        let picked: Vec<usize> = match tier {
            Tier::Quick => vec![(seed as usize) % chunks.len()],
            Tier::Thorough => (0..chunks.len()).collect(),
        };
        for k in picked {
            let mut text = String::new();
            for (i, n) in chunks[k].iter().enumerate() {
                match i % 3 {
                    0 => text.push_str(&format!("p_{} = {{ {}+ }}\n", n.to_lowercase(), n)),
                    1 => text.push_str(&format!("p_{} = {{ \"<\" ~ {} ~ (!{} ~ ANY)? }}\n", n.to_lowercase(), n, n)),
                    _ => text.push_str(&format!("p_{} = @{{ ({} | \"_\")* ~ ANY? }}\n", n.to_lowercase(), n)),
                }
            }
            if Grammar::parse(&text).is_ok() {
                specs.push(Spec::new(&format!("uni{:02}", k), "unicode", &text));
            }
        }
    }
    // span-free values (C18): silent rules over strings, ranges and choices - two results can differ
    // in nothing but the alternative taken or one character
    {
        let text = "kw = _{ \"a\" | \"b\" | \"c\" }\npair = _{ ('a'..'z') ~ \"=\" ~ ('0'..'9') }\nsw = _{ (\"x\" | \"y\") ~ (\"x\" | \"y\") ~ (\"x\" | \"y\" | \"z\")? }\nnest = _{ \"a\" ~ (\"b\" | \"c\") | \"d\" ~ (\"b\" | \"c\")* }\nins = _{ ^\"ab\" ~ ANY }\nwrapped = { kw ~ kw }\nlook = _{ (\"a\" ~ &\"bc\" | ^\"a\") ~ \"b\" }";
        let mut s = Spec::new("valuesem", "values", text);
        s.forms = true;
        specs.push(s);
    }
    specs.push(crate::arity::spec());
    // getter family (C16)
    for (i, text) in crate::getters::HAND_WRITTEN.iter().enumerate() {
        if let Some(s) = crate::getters::make_spec(&format!("gth{}", i), text) {
            specs.push(s);
        }
        // the same grammar generated from the raw AST (the getter code exists twice in the generator)
        if let Some(s) = crate::getters::make_spec_for(&format!("gtr{}", i), text, false) {
            specs.push(s);
        }
    }
    let n_get = tier.pick(10, 24);
    let mut rng = Rng::new(sub_seed(seed, "corpus.getter"));
    for i in 0..n_get {
        let g = valid_grammar(&mut rng, &Profile::getter(), &mut stats, &mut rejected);
        if let Some(s) = crate::getters::make_spec(&format!("get{:03}", i), &g.text) {
            specs.push(s);
        }
    }
    {
        let mut s = Spec::new("subinput", "subinput", &subinput_grammar());
        s.forms = true;
        specs.push(s);
    }
    for (id, path) in REPO_GRAMMARS {
        if let Ok(text) = std::fs::read_to_string(path) {
            if Grammar::parse(&text).is_ok() {
                let mut s = Spec::new(id, "repo", &text);
                s.forms = id == "repo_grammar" || id == "repo_csv";
                specs.push(s);
            }
        }
    }
    // regression family: reproducers of the listed findings and saved replays
    for f in crate::common::load_findings() {
        for (k, rep) in f.raw["reproducers"].as_array().cloned().unwrap_or_default().iter().enumerate() {
            if let Some(text) = rep["grammar"].as_str() {
                if Grammar::parse(text).is_ok() {
                    let options: Vec<String> = rep["options"].as_array().map(|a| a.iter().filter_map(|x| x.as_str().map(String::from)).collect()).unwrap_or_default();
                    // a reproducer about an option set is compiled as an options family: the
                    // variant and the default build of the same text
                    let family = if options.is_empty() { "regression" } else { "options" };
                    let mut s = Spec::new(&format!("kf_{}_{}", f.id, k), family, text);
                    s.forms = options.is_empty();
                    s.options = options.clone();
                    specs.push(s);
                    if !options.is_empty() {
                        specs.push(Spec::new(&format!("kf_{}_{}_default", f.id, k), "options", text));
                    }
                }
            }
        }
    }
    // grammars of the saved replays (regression tier)
    let mut files = vec![];
    if let Ok(rd) = std::fs::read_dir(crate::common::verif_root().join("replays")) {
        for d in rd.flatten() {
            if let Ok(rd2) = std::fs::read_dir(d.path()) {
                files.extend(rd2.flatten().map(|e| e.path()).filter(|p| p.extension().map(|x| x == "json").unwrap_or(false)));
            }
        }
    }
    files.sort();
    for (k, f) in files.iter().enumerate() {
        if let Some(doc) = std::fs::read_to_string(f).ok().and_then(|t| serde_json::from_str::<Value>(&t).ok()) {
            let text = doc["grammar"]["text"].as_str().unwrap_or("");
            let opts: Vec<String> = doc["grammar"]["options"].as_str().unwrap_or("").split(',').filter(|x| !x.is_empty()).map(String::from).collect();
            if Grammar::parse(text).is_ok() && !specs.iter().any(|s| s.text == text && s.options == opts) {
                let mut s = Spec::new(&format!("rp{:03}", k), "regression", text);
                s.forms = true;
                s.options = opts;
                specs.push(s);
            }
        }
    }
    Corpus { specs, stats, rejected }
}
