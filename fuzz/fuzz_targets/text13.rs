#![no_main]
use libfuzzer_sys::fuzz_target;
fuzz_target!(|data: &[u8]| { verif_rt::c13::fuzz_one(data); });
