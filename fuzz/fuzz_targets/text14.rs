#![no_main]
use libfuzzer_sys::fuzz_target;
fuzz_target!(|data: &[u8]| { verif_rt::c14::fuzz_one(data); });
