#!/usr/bin/env python3
"""Regenerates MANIFEST.json from the table below (keeps it valid at all times)."""
import json, os
ROOT = os.path.dirname(os.path.dirname(os.path.abspath(__file__)))

# property -> (engine, technique, level text, level note, design ref)
CHECKS = {
 "C12": ("verif_rt", "bounded-exhaustive enumeration + proptest random texts, differential against pest::Position and a prose scanner",
         "Every string of length <=7 (thorough 8) over {LF,CR,1-,2-,3-,4-byte char} x every byte offset is compared with pest::Position (new, pos, line_col, line_of) and with an independent scanner written from the statement; plus seeded random texts up to 4 KiB. Exhaustive inside the scope the property names, sampled beyond it.",
         "pest 2.7.14 Position is the reference; no proof beyond the enumerated scope", "6 C12"),
 "C13": ("verif_rt", "bounded-exhaustive enumeration + proptest random texts, differential against pest::Span, plus statement invariants",
         "Every string of length <=5 (thorough 6) over {LF,CR,1-,2-,3-byte char} x every (start,end) byte pair for Span::new, every observer of every valid span, every sub-range in all RangeBounds forms for get, every ordered pair of spans for merge_spans/==/Hash, against pest::Span and the hull / whole-line invariants of the statement.",
         "pest 2.7.14 Span/merge_spans is the reference", "6 C13"),
 "C14": ("verif_rt", "bounded-exhaustive enumeration + proptest random texts; rendered snippet parsed back and compared with a model of the statement",
         "Every string of length <=5 (thorough 6) over {LF,CR,TAB,a,wide CJK,e-acute} incl. the empty one x every span and position is rendered with to_string() and with a recording FormatOption under catch_unwind; the output is parsed (numbered lines, highlighted text, marker cells) and compared with line numbers, pictured line texts, first/last line and marker cells computed from the statement. Random texts add >5-line spans and 2-3 digit gutters.",
         "display cells are unicode-width 0.1.14 width_cjk (the crate's own definition); known finding K4b classified by an exact defect model", "6 C14"),
}
G = "seeded corpus of generated grammars (general, stack, atomicity, slice, sub-input, repo, regression families) compiled with the real derive macro and with pest_derive into shard crates; proptest drives grammar-derived inputs (tape-driven sentence generator + mutations); "
CHECKS.update({
 "C01": ("runner", "proptest over generated grammars x grammar-derived inputs; differential against the pest_derive parser where pest is defined (decided by a simulation of pest's stack handling), against a reference PEG interpreter with full backtracking elsewhere",
         G + "try_parse_partial verdict and offset of every rule as entry are compared with pest's own parser and with the reference interpreter R. Sampled grammars (<=10 rules, depth <=4) and inputs (<=64 chars): exploration, not proof.",
         "pest_derive 2.7.14 and pest_meta's AST; R (crates/core/src/interp.rs) is validated against pest on every case where pest is defined (disagreements counted, never reported as violations); known findings K1, K2 classified by exact defect models", "6 C01"),
 "C02": ("runner", "proptest over generated grammars x accepted inputs; differential of token forests against pest's Pairs (pruned under @/$ rules) and against the reference derivation",
         G + "the thin token forest of every accepted parse is compared three-way: typed, pest after the documented pruning, reference derivation projection.",
         "rule kinds for the pruning come from the grammar text; K3/K1 classified by defect models", "6 C02"),
 "C03": ("runner", "proptest, metamorphic relation check-vs-parse on the typed parser, all input forms, own Stack/Tracker variants included",
         G + "check and parse entry points must agree in verdict, cursor, error Debug/Display, final stack and tracker content for &str, Position and Span inputs.",
         "relation is internal to pest-typed; the external tie to pest comes from C01/C02 on the same corpus", "6 C03"),
 "C04": ("runner", "proptest with tail-constructed inputs; oracle = prefix parse + reference interpreter's trailing-skip closure",
         G + "try_parse / try_check / TypedParser::try_parse / try_check must be Ok exactly when the prefix parse is Ok and the implicit-skip closure from its offset reaches the end of input (no skip for @/$ entries); the tree must equal the prefix tree.",
         "trailing skip computed by the reference interpreter (validated against pest through C01/C07)", "6 C04"),
 "C08": ("runner", "proptest + small-scope exhaustive enumeration, metamorphic relation sub-input vs fresh copy of the slice",
         G + "Span(host,a,b) / Position(host,a) results must equal the results on a fresh copy of the slice shifted by a (verdict, cursor, tokens, error position) for the four entry points, and must not depend on text outside the range; all strings <=4 (thorough 6) over {X,Y,a,b} x all boundary pairs on a hand-written family of cut-sensitive rules, random hosts elsewhere.",
         "only the grammars compiled with all input forms (about a quarter of the corpus plus the sub-input, repo and regression families)", "6 C08"),
 "C09": ("runner", "proptest with multi-byte-heavy inputs, all entry points and input forms under catch_unwind, offset validity predicate; debug-like vs release-like observation logs compared",
         G + "no entry point may panic; cursor, every token span, error location/line-col, tracker position and stack spans must lie in the given range on character boundaries.",
         "cases R marks not well-founded are excluded; release-like (unchecked slicing) comparison covers the grammars compiled with all forms", "6 C09"),
 "C15": ("runner", "proptest over accepted inputs; traversal results compared with a plain recursion over as_token()",
         G + "iterate_pre_order (with depths), iterate_level_order, format_as_tree/write_tree_to, children(), as_thin_token() and span nesting are compared with values computed by recursion from the token tree, which C02 ties to pest.",
         "rules that carry content (normal, $, !); atomic rules have no PairTree", "6 C15"),
 "C18": ("runner", "proptest over pairs of sub-ranges of one host object and over generated histories of parse calls; oracle: == iff identical Debug, == implies equal hash, clone equality, repeated probe identical",
         G + "pairs built on purpose to differ late (last character, one skipped blank, span offset) so that a partial eq/hash is caught; histories of up to 5 intervening parses of other rules/grammars between two probes.",
         "Debug prints every stored field (spans, skipped items), which is what makes it a usable structural oracle", "6 C18"),
})
CHECKS.update({
 "C05": ("runner", "proptest over stack-using generated grammars; oracle: reference interpreter with an immutable stack; final stack observed through the _with entry points",
         G + "verdict, cursor and final stack contents of try_parse_partial_with / try_check_partial_with against full-backtracking semantics; cases counted as non-trivial only when a scope failed after a stack modification or a predicate operand modified the stack.",
         "K2 (pest::Stack::clear_snapshot, dependency) classified by executing pest-typed's snapshot placement on a real pest::Stack", "6 C05"),
 "C06": ("runner", "bounded-exhaustive enumeration over stacks x slice bounds x tails; oracles: list-slicing model from the statement, reference interpreter, pest where defined",
         "Slice grammar (one rule per PEEK[a..b], PEEK[a..], PEEK[..b], a,b in -3..3, thorough -6..6) x all 121 stacks of depth <=4 over {a,b,ab} x expected text, its single-character mutations, proper prefixes and extensions; stack built-ins in normal/!/@/$ context x all stacks of depth <=3 x all tails <=4 over {a,b,!,blank}. Exhaustive inside the named scope.",
         "the model's agreement with the reference interpreter is itself checked on every case", "6 C06"),
 "C07": ("runner", "bounded-exhaustive gap-subset enumeration on the kind-nesting grammar family; differential against pest_derive (verdict, cursor, all rule token spans)",
         "For each of the 25 caller/callee kind pairs (125 chains in the thorough tier) x sequence and repetition x 4 WHITESPACE/COMMENT combinations: every subset of the gaps of every base sentence receives skippable text (all 2^(n+1) subsets up to 10 gaps, 1024 seeded subsets above).",
         "no stack operations in this family, so pest is defined everywhere; K1 classified by defect model", "6 C07"),
 "C10": ("runner", "proptest over rejected inputs; oracle: attempt trace (rule, position, outcome) of the reference interpreter on the optimised AST",
         G + "tracker position in range / on a boundary / not before the matched prefix; every expected rule failed and every unexpected rule matched at that position in the reference trace; special entries correspond to trace events; Display does not panic; location and line/column agree; two runs identical.",
         "cases where acceptance itself deviates (K1, K2) belong to C01 and are skipped", "6 C10"),
 "C11": ("runner + verif_gen", "generated ill-formed grammars (catalogue x terminals, random AST mutations of valid grammars, rejected candidates): pest_meta verdict vs the generator library under catch_unwind in a separate process; compile attribution of the corpus build; watchdog-bounded termination sweep",
         "rejected by pest's validator <=> derive_typed_parser panics; accepted => tokens parse as Rust and every corpus grammar compiles; every parse of every well-founded (grammar, rule, input) case returns within the watchdog (30 s without progress).",
         "termination is bounded liveness, not a proof; grammars only validate_pairs rejects (names) are outside the statement", "6 C11"),
 "C16": ("runner", "proptest over getter-family grammars compiled with emit_rule_reference and generated harness code calling every getter; oracle: shape rebuilt from the documented rules, evaluated along the reference derivation",
         "r.x() flattened through a trait over &T/Option/Vec/tuples (leaf = rule name, span, token subtree) must equal the expected nesting and the mentions of x that r's own expression matched, in expression order.",
         "built-ins are rendered by character / kind / span; getters on Unicode properties outside the sampled ten are not probed", "6 C16"),
 "C17": ("runner", "exhaustive enumeration over arities 2..16 x alternative indices x overlapping inputs, gap subsets for sequences/repetitions, boundary-dense character sets for leaves; oracle: reference derivation cross-checked with the construction of the input",
         "Generated accessor code (_k(), if_then/else_if/else_then, reference(), consume_if_then, match_choices!, get_matched/as_ref/into_matched/get_all, iter_matched/iter_all/into_iter_matched, leaf contents) compiled against the real derive output for library-provided (<=12) and macro-generated (13..16) arities.",
         "one hand-written arity grammar; skip-until is instantiated from the runtime crate because generated rule structs never expose it", "6 C17"),
 "C19": ("verif_rt", "bounded-exhaustive enumeration of inputs over combinators instantiated from the runtime crate; oracle: executable model of the statement",
         "219 + 55 combinator instances (RepMin/RepMinMax/RepExact for all MIN<=MAX in 0..4 x SKIP x 4 element kinds, arrays, pairs, optionals, SkipChar, AtomicRepeat, pushing/popping pairs) x all strings <=8 over {a,b,blank} and <=5 with a 2-byte letter: verdict, offset, element count, blanks skipped per element, final stack, parse vs check.",
         "the model is small and written from the property text", "6 C19"),
 "C20": ("runner + verif_gen", "three separate generator processes compared token-for-token on every corpus grammar; option variants of recursive grammars compiled side by side and compared on proptest-generated inputs",
         "determinism of the emitted token stream across processes; every variant compiles; verdict, cursor and token forest of each of 7 non-default option sets equal the default variant's (which C01/C02 tie to pest).",
         "K5 (does not compile) and K6 (e+ under pest_optimizer=false) are listed findings with exact models; K7 (Unicode property INHERITED does not compile) is C11's", "6 C20"),
})
NOT_YET = {}

def main():
    props = [json.loads(l) for l in open(os.path.join(ROOT, "properties.jsonl"))]
    checks = []
    na = []
    for p in props:
        pid = p["id"]
        if pid in CHECKS:
            eng, tech, text, note, ref = CHECKS[pid]
            checks.append({
                "property_id": pid,
                "quick_cmd": "./check %s --tier quick" % pid,
                "thorough_cmd": "./check %s --tier thorough" % pid,
                "evidence_file": "evidence/%s.json" % pid,
                "replay_cmd_template": "./check replay {path}",
                "engine": eng,
                "level_claimed": {"category": "exploration", "text": text, "design_ref": "DESIGN.md section " + ref},
                "level_note": note,
                "technique": tech,
            })
        else:
            na.append({"property_id": pid, "reason": NOT_YET.get(pid, "check not built yet in this revision of /verif (work in progress, see DESIGN.md section 10); property-based testing applies and a check is planned")})
    m = {
        "version": 1,
        "setup_cmd": "./check setup",
        "hooks": {
            "guard": "pest_typed_verif",
            "enable": "no source hooks are needed: every observation goes through the public API; the guard name is reserved and unused",
            "baseline_off_cmd": "cd /repo && cargo test --workspace --no-fail-fast --offline",
            "source_commits": [],
            "add_only": True,
        },
        "engines": [
            {"name": "verif_rt", "path": "crates/rt", "serves_properties": ["C12", "C13", "C14", "C19"],
             "kind_free_text": "Rust binary: bounded-exhaustive enumeration and proptest over the pure runtime (Position, Span, formatter, raw combinators), differential against pest and statement models"},
            {"name": "runner", "path": "crates/gen + work/ (generated)", "serves_properties": [c for c in CHECKS if c not in ("C12","C13","C14","C19")],
             "kind_free_text": "seeded grammar corpus compiled with the real derive macro and pest_derive into shard crates; proptest drives grammar-derived inputs; oracles: pest parser, reference PEG interpreter, metamorphic relations"},
        ],
        "checks": checks,
        "not_applicable": na,
        "notes": "Technique family: property-based testing and fuzzing (proptest, bounded-exhaustive enumeration, libFuzzer in the thorough tier). See DESIGN.md (sections 12-13: as built, findings, seeded changes). Known findings: known_findings.json (open: K1 K2 K3 K4b K5 K6 K7; fixed in /repo by fix: commits: F1 K4a K4c). Seeded changes with demonstrations: seeded/. Saved reproductions: replays/.",
    }
    json.dump(m, open(os.path.join(ROOT, "MANIFEST.json"), "w"), indent=1)
    print("wrote MANIFEST.json with", len(checks), "checks,", len(na), "not_applicable")

if __name__ == "__main__":
    main()
