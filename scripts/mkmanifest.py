#!/usr/bin/env python3
"""Regenerates MANIFEST.json from the table below (keeps it valid at all times)."""
import json, os
ROOT = os.path.dirname(os.path.dirname(os.path.abspath(__file__)))

# property -> (engine, technique, level text, level note, design ref)
CHECKS = {
 "C12": ("verif_rt", "bounded-exhaustive enumeration + proptest random texts, differential against pest::Position and a prose scanner",
         "Every string of length <=7 (thorough 8) over {LF,CR,1-,2-,3-,4-byte char} x every byte offset is compared with pest::Position (new, pos, line_col, line_of) and with an independent scanner written from the statement; plus seeded random texts up to 4 KiB. Exhaustive inside the scope the property names, sampled beyond it.",
         "pest 2.7.14 Position is the reference; no proof beyond the enumerated scope", "6 C12"),
 "C13": ("verif_rt", "bounded-exhaustive enumeration + proptest random texts, differential against pest::Span, plus statement invariants",
         "Every string of length <=5 (thorough 6) over {LF,CR,1-,2-,3-byte char} x every (start,end) byte pair for Span::new, every observer of every valid span, every sub-range in all RangeBounds forms for get, every ordered pair of spans for merge_spans/==/Hash, against pest::Span and the hull / whole-line invariants of the statement.",
         "pest 2.7.14 Span/merge_spans is the reference", "6 C13"),
 "C14": ("verif_rt", "bounded-exhaustive enumeration + proptest random texts; rendered snippet parsed back and compared with a model of the statement",
         "Every string of length <=5 (thorough 6) over {LF,CR,TAB,a,wide CJK,e-acute} incl. the empty one x every span and position is rendered with to_string() and with a recording FormatOption under catch_unwind; the output is parsed (numbered lines, highlighted text, marker cells) and compared with line numbers, pictured line texts, first/last line and marker cells computed from the statement. Random texts add >5-line spans and 2-3 digit gutters.",
         "display cells are unicode-width 0.1.14 width_cjk (the crate's own definition); known finding K4b classified by an exact defect model", "6 C14"),
}
NOT_YET = {}

def main():
    props = [json.loads(l) for l in open(os.path.join(ROOT, "properties.jsonl"))]
    checks = []
    na = []
    for p in props:
        pid = p["id"]
        if pid in CHECKS:
            eng, tech, text, note, ref = CHECKS[pid]
            checks.append({
                "property_id": pid,
                "quick_cmd": "./check %s --tier quick" % pid,
                "thorough_cmd": "./check %s --tier thorough" % pid,
                "evidence_file": "evidence/%s.json" % pid,
                "replay_cmd_template": "./check replay {path}",
                "engine": eng,
                "level_claimed": {"category": "exploration", "text": text, "design_ref": "DESIGN.md section " + ref},
                "level_note": note,
                "technique": tech,
            })
        else:
            na.append({"property_id": pid, "reason": NOT_YET.get(pid, "check not built yet in this revision of /verif (work in progress, see DESIGN.md section 10); property-based testing applies and a check is planned")})
    m = {
        "version": 1,
        "setup_cmd": "./check setup",
        "hooks": {
            "guard": "pest_typed_verif",
            "enable": "no source hooks are needed: every observation goes through the public API; the guard name is reserved and unused",
            "baseline_off_cmd": "cd /repo && cargo test --workspace --no-fail-fast --offline",
            "source_commits": [],
            "add_only": True,
        },
        "engines": [
            {"name": "verif_rt", "path": "crates/rt", "serves_properties": ["C12", "C13", "C14", "C19"],
             "kind_free_text": "Rust binary: bounded-exhaustive enumeration and proptest over the pure runtime (Position, Span, formatter, raw combinators), differential against pest and statement models"},
            {"name": "runner", "path": "crates/gen + work/ (generated)", "serves_properties": [c for c in CHECKS if c not in ("C12","C13","C14","C19")],
             "kind_free_text": "seeded grammar corpus compiled with the real derive macro and pest_derive into shard crates; proptest drives grammar-derived inputs; oracles: pest parser, reference PEG interpreter, metamorphic relations"},
        ],
        "checks": checks,
        "not_applicable": na,
        "notes": "Technique family: property-based testing and fuzzing. See DESIGN.md. Known findings: known_findings.json.",
    }
    json.dump(m, open(os.path.join(ROOT, "MANIFEST.json"), "w"), indent=1)
    print("wrote MANIFEST.json with", len(checks), "checks,", len(na), "not_applicable")

if __name__ == "__main__":
    main()
