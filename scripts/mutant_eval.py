#!/usr/bin/env python3
"""Apply a seeded change to /repo, run checks, undo.  usage: mutant_eval.py <diff> [--props C01,C02] [--seed N] [--out file]
Never leaves /repo modified (checkout in a finally block)."""
import json, os, subprocess, sys, time
ROOT = os.path.dirname(os.path.dirname(os.path.abspath(__file__)))
ALL = ["C%02d" % i for i in range(1, 21)]

def main():
    diff = os.path.abspath(sys.argv[1])
    props = ALL
    seed = "0"
    out = None
    a = sys.argv[2:]
    while a:
        if a[0] == "--props": props = a[1].split(","); a = a[2:]
        elif a[0] == "--seed": seed = a[1]; a = a[2:]
        elif a[0] == "--out": out = a[1]; a = a[2:]
        else: a = a[1:]
    st = subprocess.run(["git", "-C", "/repo", "status", "--porcelain"], capture_output=True, text=True).stdout.strip()
    if st:
        print("refusing: /repo is not clean:\n" + st); return 2
    r = subprocess.run(["git", "-C", "/repo", "apply", diff], capture_output=True, text=True)
    if r.returncode != 0:
        print("patch does not apply: " + r.stderr); return 2
    results = {}
    try:
        env = dict(os.environ, VERIF_SEED=seed, VERIF_C09_SKIP_RELEASE="0")
        for p in props:
            t = time.time()
            r = subprocess.run([os.path.join(ROOT, "check"), p, "--tier", "quick"], capture_output=True, text=True, env=env, cwd=ROOT)
            vio = [l for l in r.stdout.splitlines() if l.startswith("VIOLATION")]
            why = ""
            if vio:
                path = vio[0].split("replay=")[-1].strip()
                try:
                    why = json.load(open(path)).get("why", "")[:300]
                except Exception:
                    pass
            results[p] = {"exit": r.returncode, "s": round(time.time() - t, 1), "why": why}
            print("%s exit=%d %.0fs %s" % (p, r.returncode, time.time() - t, why[:160]), flush=True)
    finally:
        subprocess.run(["git", "-C", "/repo", "checkout", "--", "."])
    if out:
        json.dump(results, open(out, "w"), indent=1)
    return 0

if __name__ == "__main__":
    sys.exit(main())
