#!/bin/bash
# usage: scripts/sweep.sh "<seeds>" [tier] [props...]   - runs every check for each seed, one summary line each
cd "$(dirname "$0")/.."
seeds="$1"; tier="${2:-quick}"; shift; shift
props="$@"
[ -z "$props" ] && props="C01 C02 C03 C04 C05 C06 C07 C08 C09 C10 C11 C12 C13 C14 C15 C16 C17 C18 C19 C20"
for s in $seeds; do
  for p in $props; do
    start=$(date +%s)
    out=$(VERIF_SEED=$s ./check $p --tier $tier 2>&1); code=$?
    echo "seed=$s $p exit=$code $(( $(date +%s) - start ))s $(echo "$out" | grep -E 'VIOLATION|inconclusive|watchdog' | head -2 | tr '\n' ' ')"
    if [ $code -ne 0 ]; then mkdir -p work/sweep_fail; cp work/replay/$p-*.json work/sweep_fail/ 2>/dev/null; echo "$out" | tail -5; fi
  done
done
