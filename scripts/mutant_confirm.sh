#!/bin/bash
# usage: mutant_confirm.sh <worktree> <ID> <mN>   - confirms: suite passes with the mutant, demo fails with it, demo passes without
wt=$1; id=$2; m=$3
od=out; case $m in m3|m4) od=out2;; esac
cd $wt || exit 2
export CARGO_TARGET_DIR=$wt/target CARGO_NET_OFFLINE=true
git checkout -q -- main generator derive/src 2>/dev/null
demo=$(ls $wt/$od/demo_${id}_${m}.rs)
# where does the demo live?
# the delivered copy in out/ is authoritative; it goes where its header says (default derive/tests)
place=$(grep -oE "(derive|main|generator)/tests/demo_${id}_${m}\.rs" $demo | head -1)
[ -z "$place" ] && place=derive/tests/demo_${id}_${m}.rs
cp $demo $place
pkg=pest_typed_derive; case $place in main/*) pkg=pest_typed;; generator/*) pkg=pest_typed_generator;; esac
t=demo_${id}_${m}
git apply $od/$m.diff || { echo "APPLY-FAILED"; exit 2; }
suite=$(cargo test --workspace --no-fail-fast --offline 2>&1 | grep -E "^test result" | grep -v "demo" )
# exclude demo results: run the suite result lines count of failed (demo tests are part of workspace tests; subtract)
sf=$(cargo test --workspace --no-fail-fast --offline 2>&1 | grep -E "^test .* FAILED|failed to compile|could not compile" | grep -v "demo_" | wc -l)
failing_bins=$(cargo test --workspace --no-fail-fast --offline 2>&1 | grep -E "^error: test failed, to rerun pass" | grep -v "demo_" | wc -l)
cargo test --offline -p $pkg --test $t > /tmp/wt/confirm_$id$m.with 2>&1; dw=$?
git checkout -q -- main generator derive/src
cargo test --offline -p $pkg --test $t > /tmp/wt/confirm_$id$m.without 2>&1; dwo=$?
echo "$id $m suite_failing_binaries_with_mutant=$failing_bins demo_exit_with=$dw demo_exit_without=$dwo"
