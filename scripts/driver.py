"""Driver behind ./check: builds what a property needs from the current /repo tree and
runs the property's engine.  No verdict is computed here; verdicts come from the engines
(verif_rt, the generated runner).  This file only orchestrates builds, watchdogs and exit
codes."""
import json
import os
import subprocess
import sys
import time

ROOT = os.path.dirname(os.path.dirname(os.path.abspath(__file__)))
TARGET = os.path.join(ROOT, "target")
RT_PROPS = {"C12", "C13", "C14", "C19"}

ENV = dict(os.environ)
ENV.setdefault("CARGO_NET_OFFLINE", "true")
ENV["CARGO_TARGET_DIR"] = TARGET
ENV["VERIF_ROOT"] = ROOT
ENV.setdefault("CARGO_TERM_COLOR", "never")


def log(msg):
    print("[check] " + msg, file=sys.stderr, flush=True)


def run(cmd, cwd=ROOT, timeout=None, capture=False, env=None):
    """Run a command; returns (code, output).  Timeout -> code None."""
    try:
        p = subprocess.run(
            cmd,
            cwd=cwd,
            env=env or ENV,
            timeout=timeout,
            stdout=subprocess.PIPE if capture else None,
            stderr=subprocess.STDOUT if capture else None,
            text=True,
        )
        return p.returncode, (p.stdout or "")
    except subprocess.TimeoutExpired as e:
        out = e.stdout or ""
        if isinstance(out, bytes):
            out = out.decode("utf-8", "replace")
        return None, out


def cargo_build(args, cwd=ROOT, what="", timeout=3600):
    t = time.time()
    code, out = run(["cargo", "build"] + args, cwd=cwd, timeout=timeout, capture=True)
    log("build %s: %s in %.1fs" % (what, "ok" if code == 0 else "FAILED", time.time() - t))
    return code, out


def tier_of(argv):
    tier = os.environ.get("VERIF_TIER", "quick")
    if "--tier" in argv:
        tier = argv[argv.index("--tier") + 1]
    return "thorough" if tier == "thorough" else "quick"


def seed():
    try:
        return int(os.environ.get("VERIF_SEED", "0"))
    except ValueError:
        return 0


def clear_replays(prop):
    d = os.path.join(ROOT, "work", "replay")
    if os.path.isdir(d):
        for f in os.listdir(d):
            if f.startswith(prop + "-"):
                try:
                    os.remove(os.path.join(d, f))
                except OSError:
                    pass


def build_rt():
    code, out = cargo_build(["--profile", "fast", "-p", "verif_rt"], what="verif_rt")
    if code != 0:
        sys.stderr.write(out[-6000:])
        log("the harness or pest-typed does not build: inconclusive")
        return False
    return True


def run_rt(prop, tier):
    if not build_rt():
        return 2
    clear_replays(prop)
    exe = os.path.join(TARGET, "fast", "verif_rt")
    limit = 900 if tier == "quick" else 4 * 3600
    code, _ = run([exe, prop.lower(), "--tier", tier, "--seed", str(seed())], timeout=limit)
    if code is None:
        log("watchdog: %s did not finish within %ds: inconclusive" % (prop, limit))
        return 2
    if code == 0 and tier == "thorough" and prop in ("C12", "C13", "C14"):
        return fuzz_text(prop, exe)
    return code if code in (0, 1) else 2


def fuzz_text(prop, exe):
    """Thorough tier of the text-level properties: a libFuzzer campaign (fixed number of runs,
    seed from VERIF_SEED, fresh corpus seeded with a few small texts) on the same oracle."""
    import glob
    import shutil

    target = "text" + prop[1:]
    fdir = os.path.join(ROOT, "fuzz")
    corp = os.path.join(ROOT, "work", "fuzz_corpus", target)
    art = os.path.join(ROOT, "work", "fuzz_artifacts", target) + os.sep
    shutil.rmtree(corp, ignore_errors=True)
    shutil.rmtree(art, ignore_errors=True)
    os.makedirs(corp, exist_ok=True)
    os.makedirs(art, exist_ok=True)
    for d in (corp, art):
        for f in os.listdir(d):
            try:
                os.remove(os.path.join(d, f))
            except OSError:
                pass
    seeds = [b"", b"a", b"ab\ncd\n", b"\r\n\r\n", "\u00e9\u4e2d\U0001F600".encode("utf-8"), b"x\ny\nz\n1\n2\n3\n4\n", "\t\u4e2d\n".encode("utf-8")]
    for i, sd in enumerate(seeds):
        with open(os.path.join(corp, "seed%d" % i), "wb") as f:
            f.write(b"\x40\x80\x00" + sd)
    env = dict(ENV)
    env["CARGO_TARGET_DIR"] = os.path.join(TARGET, "fuzz")
    env["ASAN_OPTIONS"] = "detect_leaks=0:detect_odr_violation=0"
    runs = {"C12": 20000000, "C13": 40000, "C14": 1500000}[prop]
    cmd = ["cargo", "+nightly", "fuzz", "run", "--fuzz-dir", fdir, target, corp, "--", "-runs=%d" % runs, "-seed=%d" % (seed() + 1), "-max_len=96", "-len_control=0", "-artifact_prefix=" + art, "-print_final_stats=1", "-detect_leaks=0"]
    t = time.time()
    code, out = run(cmd, cwd=ROOT, env=env, capture=True, timeout=4 * 3600)
    logp = os.path.join(ROOT, "work", "fuzz_%s.log" % target)
    with open(logp, "w") as f:
        f.write(out)
    log("libFuzzer %s: status %s in %.0fs" % (target, code, time.time() - t))
    arts = sorted(glob.glob(art + "*"))
    if code is None:
        log("libFuzzer campaign ran out of time: inconclusive")
        return 2
    if code != 0 and not arts and "ERROR: libFuzzer" not in out and "panicked" not in out:
        sys.stderr.write(out[-3000:])
        log("the fuzz target does not build or run: inconclusive")
        return 2
    cmd = [exe, "fuzzmerge", prop.lower(), "--log", logp]
    if arts:
        cmd += ["--artifact", arts[0]]
    code2, _ = run(cmd, timeout=600)
    return code2 if code2 in (0, 1) else 2


def replay(path):
    try:
        doc = json.load(open(path))
    except Exception as e:  # noqa: BLE001
        log("cannot read replay file: %s" % e)
        return 2
    prop = doc.get("property", "")
    if prop in RT_PROPS:
        if not build_rt():
            return 2
        code, _ = run([os.path.join(TARGET, "fast", "verif_rt"), "replay", path], timeout=900)
        return code if code in (0, 1) else 2
    import corpus

    return corpus.replay(doc, path)


def setup():
    ok = build_rt()
    try:
        import corpus

        ok = corpus.setup() and ok
    except ImportError:
        pass
    return 0 if ok else 2


def main(argv):
    if not argv:
        print(__doc__)
        return 2
    if argv[0] == "setup":
        return setup()
    if argv[0] == "replay":
        return replay(argv[1])
    prop = argv[0].upper()
    tier = tier_of(argv)
    if prop in RT_PROPS:
        return run_rt(prop, tier)
    import corpus

    return corpus.run_property(prop, tier)
