#!/usr/bin/env python3
"""Confirm and evaluate seeded changes delivered by sub-agents.
usage: mutant_pipeline.py <eval_root> <ID:mN> [...]      e.g. /root/evalsnap C06:m1 C06:m2
For each: (1) confirmation in the agent's scratch worktree /tmp/wt/cNN (suite passes with the change, demo fails with it and
passes without), (2) all checks of <eval_root> against /repo with the change applied (undone afterwards),
(3) record under /verif/seeded/<ID>-<mN>/ : patch.diff, demo, meta.json."""
import json, os, shutil, subprocess, sys, time
VERIF = "/verif"
ALL = ["C%02d" % i for i in range(1, 21)]

def sh(cmd, **kw):
    return subprocess.run(cmd, capture_output=True, text=True, **kw)

def confirm(wt, ID, m):
    r = sh([os.path.join(VERIF, "scripts", "mutant_confirm.sh"), wt, ID, m])
    line = (r.stdout.strip().splitlines() or [""])[-1]
    d = {}
    for tok in line.split():
        if "=" in tok:
            k, v = tok.split("="); d[k] = int(v)
    ok = d.get("suite_failing_binaries_with_mutant") == 0 and d.get("demo_exit_with", 0) != 0 and d.get("demo_exit_without", 1) == 0
    return ok, line

def evaluate(root, diff, props):
    st = sh(["git", "-C", "/repo", "status", "--porcelain"]).stdout.strip()
    if st:
        raise SystemExit("refusing: /repo is not clean:\n" + st)
    r = sh(["git", "-C", "/repo", "apply", diff])
    if r.returncode != 0:
        raise SystemExit("patch does not apply: " + r.stderr)
    results = {}
    try:
        env = dict(os.environ, VERIF_SEED="0")
        for p in props:
            t = time.time()
            r = sh([os.path.join(root, "check"), p, "--tier", "quick"], env=env, cwd=root)
            vio = [l for l in r.stdout.splitlines() if l.startswith("VIOLATION")]
            why = ""
            if vio:
                path = vio[0].split("replay=")[-1].strip()
                try:
                    why = json.load(open(path)).get("why", "")[:400]
                except Exception:
                    pass
            elif r.returncode == 2:
                why = (r.stderr.strip().splitlines() or [""])[-1][:300]
            results[p] = {"exit": r.returncode, "seconds": round(time.time() - t, 1), "why": why}
            if vio:
                try:
                    results[p]["replay_doc"] = json.load(open(vio[0].split("replay=")[-1].strip()))
                except Exception:
                    pass
            print("   %s exit=%d %.0fs %s" % (p, r.returncode, time.time() - t, why[:140]), flush=True)
    finally:
        sh(["git", "-C", "/repo", "checkout", "--", "."])
    return results

def main():
    root = sys.argv[1]
    for spec in [a for a in sys.argv[2:] if not a.startswith('--')]:
        ID, m = spec.split(":")
        wt = "/tmp/wt/c" + ID[1:]
        outdir = "out2" if m in ("m3", "m4") else "out"
        print("== %s %s" % (ID, m), flush=True)
        prev = os.path.join(VERIF, "seeded", "%s-%s" % (ID, m), "meta.json")
        if os.path.exists(prev) and "--reconfirm" not in sys.argv:
            # confirmed in an earlier run: the scratch worktree may be in use by another agent now
            ok, line = True, json.load(open(prev))["confirmation"]["result"]
        else:
            ok, line = confirm(wt, ID, m)
        print("   confirm:", line, "->", "OK" if ok else "NOT CONFIRMED", flush=True)
        meta_agent = {}
        try:
            ma = json.load(open(os.path.join(wt, outdir, "meta.json")))
            meta_agent = [x for x in ma.get("mutants", []) if x.get("name") == m][0]
        except Exception:
            pass
        out = os.path.join(VERIF, "seeded", "%s-%s" % (ID, m))
        if not ok:
            os.makedirs(os.path.join(VERIF, "work"), exist_ok=True)
            open(os.path.join(VERIF, "work", "unconfirmed_%s_%s.txt" % (ID, m)), "w").write(line)
            continue
        os.makedirs(out, exist_ok=True)
        if not os.path.exists(prev):
            shutil.copy(os.path.join(wt, outdir, m + ".diff"), os.path.join(out, "patch.diff"))
        demo = os.path.join(wt, outdir, "demo_%s_%s.rs" % (ID, m))
        if os.path.exists(demo) and not os.path.exists(prev):
            shutil.copy(demo, os.path.join(out, os.path.basename(demo)))
        results = evaluate(root, os.path.join(out, "patch.diff"), ALL)
        caught = [p for p, r in results.items() if r["exit"] == 1]
        # keep the shrunk failures as replay files (regression tier): the target property's, else the first
        for p, r in results.items():
            doc = r.pop("replay_doc", None)
            if doc is not None and isinstance(doc.get("grammar"), dict) and doc["grammar"].get("text") and (p == ID or (ID not in caught and p == caught[0])):
                json.dump(doc, open(os.path.join(out, "replay_%s.json" % p), "w"), indent=1, ensure_ascii=False)
        commit = sh(["git", "-C", root, "rev-parse", "--short", "HEAD"]).stdout.strip()
        meta = {
            "property": ID,
            "name": m,
            "summary": meta_agent.get("summary", ""),
            "needs_to_manifest": meta_agent.get("needs_to_manifest", ""),
            "files_changed": meta_agent.get("files_changed", []),
            "confirmation": {"where": wt, "what_was_run": "scripts/mutant_confirm.sh: git apply; cargo test --workspace --no-fail-fast --offline (no failing test binary besides the demo); demo with the change (fails) and without (passes)", "result": line},
            "checks": {"verif_commit": commit, "seed": 0, "tier": "quick", "caught_by": caught, "target_property_caught": ID in caught, "results": results},
        }
        json.dump(meta, open(os.path.join(out, "meta.json"), "w"), indent=1)
        print("   caught by:", caught, flush=True)

if __name__ == "__main__":
    main()
