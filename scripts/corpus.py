"""Corpus-based checks: generate the grammar corpus for (seed, tier), compile it against the
current /repo tree (shards in parallel), run the generated runner for one property."""
import json
import os
import re
import shutil
import sys
import time

import driver
from driver import ENV, ROOT, TARGET, cargo_build, log, run

GEN = os.path.join(TARGET, "debug", "verif_gen")


def work_dir(kind="main"):
    return os.path.join(ROOT, "work" if kind == "main" else "work_" + kind)


def build_gen():
    code, out = cargo_build(["-p", "verif_gen"], what="verif_gen")
    if code != 0:
        sys.stderr.write(out[-6000:])
        return False
    return True


def gen_corpus(seed, tier, out, dropped=(), release_like=False, specs_file=None, only_forms=False):
    if specs_file:
        cmd = [GEN, "specs", "--file", specs_file, "--out", out]
    else:
        cmd = [GEN, "corpus", "--seed", str(seed), "--tier", tier, "--out", out]
    if dropped:
        cmd += ["--drop", ",".join(sorted(dropped))]
    if release_like:
        cmd += ["--release-like"]
    if only_forms:
        cmd += ["--only-forms"]
    code, outp = run(cmd, capture=True)
    if code != 0:
        sys.stderr.write(outp[-4000:])
        return False
    log(outp.strip().splitlines()[-1] if outp.strip() else "corpus written")
    return True


def target_for(out):
    # one target dir per generated workspace and profile so that builds do not evict each other
    return os.path.join(TARGET, "gen_" + os.path.basename(out))


def build_corpus(seed, tier, out, release_like=False, specs_file=None, only_forms=False):
    """Returns (ok, dropped, compile_failures).  A grammar whose generated code does not
    compile is attributed by the file name in rustc's diagnostics, dropped and reported."""
    dropped = set()
    failures = []
    env = dict(ENV)
    env["CARGO_TARGET_DIR"] = target_for(out)
    env["VERIF_WORK"] = out
    for attempt in range(4):
        if not gen_corpus(seed, tier, out, dropped, release_like, specs_file, only_forms):
            return False, dropped, failures
        t = time.time()
        code, outp = run(["cargo", "build", "-p", "runner"], cwd=out, capture=True, env=env, timeout=3 * 3600)
        log("build corpus (%s): %s in %.1fs" % (os.path.basename(out), "ok" if code == 0 else "FAILED", time.time() - t))
        if code == 0:
            return True, dropped, failures
        bad = set(re.findall(r"-->\s+shard\d+/src/g_([A-Za-z0-9_]+)\.rs", outp))
        bad |= set(re.findall(r"shard\d+/src/g_([A-Za-z0-9_]+)\.rs:\d+", outp))
        bad -= dropped
        if not bad:
            sys.stderr.write(outp[-8000:])
            log("the corpus does not build and no grammar module can be blamed: inconclusive")
            return False, dropped, failures
        for b in sorted(bad):
            m = re.search(r"(error[^\n]*\n(?:[^\n]*\n){0,6}?[^\n]*g_%s\.rs[^\n]*\n(?:[^\n]*\n){0,8})" % re.escape(b), outp)
            failures.append({"grammar": b, "diagnostic": (m.group(1) if m else "")[:1500]})
        log("derive output of %s does not compile: dropped from the corpus" % ", ".join(sorted(bad)))
        dropped |= bad
    return False, dropped, failures


def runner_exe(out):
    return os.path.join(target_for(out), "debug", "runner")


def write_failures(out, failures):
    with open(os.path.join(out, "compile_failures.json"), "w") as f:
        json.dump(failures, f, indent=1)


def run_property(prop, tier):
    seed = driver.seed()
    if not build_gen():
        return 2
    out = work_dir()
    ok, dropped, failures = build_corpus(seed, tier, out)
    if not ok:
        return 2
    write_failures(out, failures)
    if prop == "C20":
        # determinism: the generator library in three separate processes
        for tag in ("a", "b", "c"):
            code, outp = run([GEN, "tokens", "--seed", str(seed), "--tier", tier, "--out", os.path.join(out, "tokens_%s.json" % tag)], capture=True)
            if code != 0:
                sys.stderr.write(outp[-3000:])
                return 2
    if prop == "C11":
        code, outp = run([GEN, "illformed", "--seed", str(seed), "--tier", tier, "--out", os.path.join(out, "c11_gen.json")], capture=True)
        if code != 0:
            sys.stderr.write(outp[-3000:])
            return 2
        log(outp.strip().splitlines()[-1])
    driver.clear_replays(prop)
    limit = 1500 if tier == "quick" else 6 * 3600
    env = dict(ENV)
    env["VERIF_WORK"] = out
    cmd = [runner_exe(out), prop, "--tier", tier, "--seed", str(seed)]
    if prop == "C09":
        cmd += ["--dump", os.path.join(out, "c09_debug.tsv")]
    code, _ = run(cmd, timeout=limit, env=env)
    if code is None:
        log("watchdog: %s did not finish within %ds: inconclusive" % (prop, limit))
        return 2
    if prop == "C09" and code == 0:
        code = c09_release_like(seed, tier, out, limit)
    if code == 0 and tier == "thorough" and prop in ("C01", "C03", "C09"):
        return fuzz_parse(prop, seed)
    return code if code in (0, 1) else 2


def fuzz_parse(prop, seed):
    """Thorough tier of C01 / C03 / C09: a coverage-guided libFuzzer campaign over the compiled
    corpus (bytes -> grammar, rule, tape-driven or raw input) with the three oracles inside the
    target; fixed number of runs, seed from VERIF_SEED, fresh corpus directory."""
    import glob
    import hashlib
    import shutil

    fdir = os.path.join(ROOT, "fuzz_parse")
    corp = os.path.join(ROOT, "work", "fuzz_corpus", "parse_" + prop)
    art = os.path.join(ROOT, "work", "fuzz_artifacts", "parse_" + prop) + os.sep
    shutil.rmtree(corp, ignore_errors=True)
    shutil.rmtree(art, ignore_errors=True)
    os.makedirs(corp, exist_ok=True)
    os.makedirs(art, exist_ok=True)
    for d in (corp, art):
        for f in os.listdir(d):
            try:
                os.remove(os.path.join(d, f))
            except OSError:
                pass
    # a few seeds spread over the (grammar, rule) space, both decodings
    for i in range(64):
        h = hashlib.sha256(("%d/%d/%s" % (seed, i, prop)).encode()).digest()
        with open(os.path.join(corp, "seed%02d" % i), "wb") as f:
            f.write(h[:2] + bytes([i & 1]) + h[2:26])
    env = dict(ENV)
    env["CARGO_TARGET_DIR"] = os.path.join(TARGET, "fuzz_parse")
    # the corpus grammars are leaked on purpose (Box::leak): no leak report at exit
    env["ASAN_OPTIONS"] = "detect_leaks=0:detect_odr_violation=0"
    runs = 150000
    offset = {"C01": 1, "C03": 2, "C09": 3}[prop]
    cmd = ["cargo", "+nightly", "fuzz", "run", "--fuzz-dir", fdir, "parse", corp, "--", "-runs=%d" % runs, "-seed=%d" % (seed * 4 + offset), "-max_len=80", "-len_control=0", "-rss_limit_mb=8192", "-artifact_prefix=" + art, "-print_final_stats=1", "-detect_leaks=0"]
    t = time.time()
    code, outp = run(cmd, cwd=ROOT, env=env, capture=True, timeout=5 * 3600)
    logp = os.path.join(ROOT, "work", "fuzz_parse_%s.log" % prop)
    with open(logp, "w") as f:
        f.write(outp)
    log("libFuzzer parse (%s): status %s in %.0fs" % (prop, code, time.time() - t))
    if code is None:
        log("libFuzzer campaign ran out of time: inconclusive")
        return 2
    stats = {}
    for l in reversed(outp.splitlines()):
        if l.startswith("#") and "cov:" in l:
            toks = l.split()
            stats["executions"] = int(toks[0].lstrip("#"))
            for a, b in zip(toks, toks[1:]):
                if a == "cov:":
                    stats["coverage_edges"] = int(b)
                if a == "ft:":
                    stats["features"] = int(b)
                if a == "corp:":
                    stats["corpus"] = b
            break
    doc = None
    for l in outp.splitlines():
        if l.startswith("VIOLATION-DOC "):
            try:
                doc = json.loads(l[len("VIOLATION-DOC "):])
            except ValueError:
                pass
    arts = sorted(glob.glob(art + "*"))
    if code != 0 and doc is None and not arts:
        sys.stderr.write(outp[-3000:])
        log("the fuzz target does not build or run: inconclusive")
        return 2
    evp = os.path.join(ROOT, "evidence", prop + ".json")
    try:
        ev = json.load(open(evp))
        ev["coverage"]["libfuzzer"] = stats
        if doc is not None or arts:
            ev["violations"] = 1
        json.dump(ev, open(evp, "w"), indent=1)
    except Exception:  # noqa: BLE001
        pass
    if doc is None and arts:
        doc = {"property": prop, "why": "the fuzz target crashed without a violation document (memory error or abort); crashing input: " + arts[0], "artifact": arts[0]}
    if doc is not None:
        rd = os.path.join(ROOT, "work", "replay")
        os.makedirs(rd, exist_ok=True)
        path = os.path.join(rd, "%s-fuzz-%s.json" % (doc.get("property", prop), hashlib.sha256(json.dumps(doc, sort_keys=True).encode()).hexdigest()[:16]))
        json.dump(doc, open(path, "w"), indent=1)
        print("VIOLATION property=%s replay=%s" % (doc.get("property", prop), path))
        return 1
    return 0


def c09_release_like(seed, tier, out, limit):
    """Second half of C09: the same cases on a release-like build (opt-level 3, debug assertions
    off: unchecked slicing is live) of the grammars compiled with all input forms; the two
    observation logs must be identical and the release-like process must not die."""
    rel = work_dir("rel")
    os.makedirs(rel, exist_ok=True)
    ok, _, _ = build_corpus(seed, tier, rel, release_like=True, only_forms=True)
    if not ok:
        return 2
    try:
        n = json.load(open(os.path.join(ROOT, "evidence", "C09.json")))["coverage"]["cases_per_pair"]
    except Exception:  # noqa: BLE001
        return 2
    env = dict(ENV)
    env["VERIF_WORK"] = rel
    env["VERIF_C09_PER_PAIR"] = str(n)
    dump = os.path.join(rel, "c09_release.tsv")
    code, _ = run([runner_exe(rel), "C09", "--tier", tier, "--seed", str(seed), "--dump", dump, "--no-evidence"], timeout=limit, env=env)
    if code is None:
        log("watchdog: release-like C09 run did not finish: inconclusive")
        return 2
    if code == 1:
        return 1  # the release-like build itself found an out-of-range offset or a panic
    status = "0" if code == 0 else str(code)
    code2, _ = run([runner_exe(out), "c09cmp", "--debug", os.path.join(out, "c09_debug.tsv"), "--release", dump, "--status", status], env=env, timeout=600)
    return code2 if code2 in (0, 1) else 2


def replay(doc, path):
    if not build_gen():
        return 2
    out = work_dir("replay")
    os.makedirs(out, exist_ok=True)
    spec = dict(doc.get("grammar", {}))
    opts = spec.get("options", "")
    if isinstance(opts, str):
        spec["options"] = [o for o in opts.split(",") if o]
    spec.setdefault("forms", True)
    specs_file = os.path.join(out, "specs.json")
    with open(specs_file, "w") as f:
        json.dump([spec], f)
    ok, dropped, failures = build_corpus(0, "quick", out, specs_file=specs_file)
    if not ok:
        return 2
    if dropped:
        log("the grammar of the replay file does not compile any more")
        print("VIOLATION property=%s replay=%s" % (doc.get("property", "?"), path))
        return 1
    env = dict(ENV)
    env["VERIF_WORK"] = out
    code, _ = run([runner_exe(out), "replay", path], timeout=900, env=env)
    return code if code in (0, 1) else 2


def setup():
    if not build_gen():
        return False
    ok, _, _ = build_corpus(0, "quick", work_dir())
    return ok
