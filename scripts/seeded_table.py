#!/usr/bin/env python3
"""Markdown table of the seeded changes and which checks catch them (DESIGN.md section 13)."""
import json, glob, os
rows = []
for d in sorted(glob.glob('/verif/seeded/*/meta.json')):
    m = json.load(open(d))
    name = os.path.basename(os.path.dirname(d))
    c = m["checks"]
    what = " ".join(m.get("summary", "").split())[:170].replace("|", "/")
    rows.append("| %s | %s | %s | %s |" % (name, what, "yes" if c["target_property_caught"] else "no (others do)" if c["caught_by"] else "**missed**", " ".join(c["caught_by"]) or "-"))
print("| change | what (first words of the author's summary) | its property's check alarms | all checks that alarm |\n|---|---|---|---|")
print("\n".join(rows))
