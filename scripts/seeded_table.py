#!/usr/bin/env python3
"""Markdown table of the seeded changes and which checks catch them (for DESIGN.md section 13)."""
import json, glob, os
rows = []
for d in sorted(glob.glob('/verif/seeded/*/meta.json')):
    m = json.load(open(d))
    name = os.path.basename(os.path.dirname(d))
    c = m["checks"]
    rows.append("| %s | %s | %s | %s | %s |" % (name, ", ".join(m.get("files_changed", []))[:60], (m.get("summary", "").split(".")[0])[:150].replace("|", "/"), "yes" if c["target_property_caught"] else "**no**", " ".join(c["caught_by"]) or "-"))
print("| change | file | what | caught by its property's check | all checks that alarm |\n|---|---|---|---|---|")
print("\n".join(rows))
