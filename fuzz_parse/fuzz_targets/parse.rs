#![no_main]
// Corpus-level target: the grammar corpus compiled for the current seed (work/shardNN).
use libfuzzer_sys::fuzz_target;
use std::cell::RefCell;
use verif_core::drive::{fuzz_init, fuzz_one, FuzzWorld};

thread_local! {
    static WORLD: RefCell<Option<FuzzWorld>> = RefCell::new(None);
}

fuzz_target!(|data: &[u8]| {
    WORLD.with(|w| {
        let mut w = w.borrow_mut();
        if w.is_none() {
            let mut gs: Vec<&'static dyn verif_support::GrammarUnderTest> = vec![];
            gs.extend(shard00::all());
            gs.extend(shard01::all());
            gs.extend(shard02::all());
            gs.extend(shard03::all());
            gs.extend(shard04::all());
            gs.extend(shard05::all());
            gs.extend(shard06::all());
            gs.extend(shard07::all());
            gs.extend(shard08::all());
            gs.extend(shard09::all());
            gs.extend(shard10::all());
            gs.extend(shard11::all());
            gs.extend(shard12::all());
            gs.extend(shard13::all());
            gs.extend(shard14::all());
            gs.extend(shard15::all());
            *w = Some(fuzz_init(gs));
        }
        fuzz_one(w.as_mut().unwrap(), data);
    });
});
